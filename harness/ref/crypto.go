package ref

import (
	"crypto/aes"
	"crypto/cipher"
	"crypto/dsa"
	"crypto/hmac"
	"crypto/sha1"
	"crypto/sha256"
	"errors"
	"io"
	"math/big"
)

// The 1536-bit MODP group of RFC 3526 (group 5), generator 2.
var (
	P, _ = new(big.Int).SetString("FFFFFFFFFFFFFFFFC90FDAA22168C234C4C6628B80DC1CD129024E088A67CC74020BBEA63B139B22514A08798E3404DDEF9519B3CD3A431B302B0A6DF25F14374FE1356D6D51C245E485B576625E7EC6F44C42E9A637ED6B0BFF5CB6F406B7EDEE386BFB5A899FA5AE9F24117C4B1FE649286651ECE45B3DC2007CB8A163BF0598DA48361C55D39A69163FA8FD24CF5F83655D23DCA3AD961C62F356208552BB9ED529077096966D670C354E4ABC9804F1746C08CA237327FFFFFFFFFFFFFFFF", 16)
	G    = big.NewInt(2)
	Q    = new(big.Int).Rsh(new(big.Int).Sub(P, big.NewInt(1)), 1)
)

// InRange is the OTR requirement 2 <= v <= p-2.
func InRange(v *big.Int) bool {
	return v != nil && v.Cmp(big.NewInt(2)) >= 0 && v.Cmp(new(big.Int).Sub(P, big.NewInt(2))) <= 0
}

func Pub(x []byte) *big.Int { return new(big.Int).Exp(G, new(big.Int).SetBytes(x), P) }

func Shared(theirPub *big.Int, x []byte) *big.Int {
	return new(big.Int).Exp(theirPub, new(big.Int).SetBytes(x), P)
}

func h2(b byte, secbytes []byte) []byte {
	h := sha256.New()
	h.Write([]byte{b})
	h.Write(secbytes)
	return h.Sum(nil)
}
func h1(b byte, secbytes []byte) []byte {
	h := sha1.New()
	h.Write([]byte{b})
	h.Write(secbytes)
	return h.Sum(nil)
}

// AKEKeys are the keys derived from the DH secret during the AKE.
type AKEKeys struct {
	SSID             [8]byte
	C, Cp            []byte
	M1, M2, M1p, M2p []byte
}

func DeriveAKEKeys(s *big.Int) *AKEKeys {
	sec := PutMPI(nil, s)
	k := &AKEKeys{}
	copy(k.SSID[:], h2(0, sec)[:8])
	cc := h2(1, sec)
	k.C, k.Cp = cc[:16], cc[16:]
	k.M1, k.M2, k.M1p, k.M2p = h2(2, sec), h2(3, sec), h2(4, sec), h2(5, sec)
	return k
}

// SessionKeys for data messages, from the point of view of the party whose
// public key is ourPub.
type SessionKeys struct {
	SendAES, RecvAES []byte
	SendMAC, RecvMAC []byte
	Extra            []byte
}

func DeriveSessionKeys(ourPub, theirPub, s *big.Int) *SessionKeys {
	sec := PutMPI(nil, s)
	sendb, recvb := byte(2), byte(1)
	if ourPub.Cmp(theirPub) > 0 {
		sendb, recvb = 1, 2
	}
	k := &SessionKeys{}
	k.SendAES = h1(sendb, sec)[:16]
	k.RecvAES = h1(recvb, sec)[:16]
	sm := sha1.Sum(k.SendAES)
	rm := sha1.Sum(k.RecvAES)
	k.SendMAC, k.RecvMAC = sm[:], rm[:]
	k.Extra = h2(0xff, sec)
	return k
}

func CTR(key []byte, topHalf []byte, src []byte) []byte {
	blk, err := aes.NewCipher(key)
	if err != nil {
		panic(err)
	}
	var iv [16]byte
	copy(iv[:], topHalf)
	dst := make([]byte, len(src))
	cipher.NewCTR(blk, iv[:]).XORKeyStream(dst, src)
	return dst
}

func HMAC256(key, data []byte) []byte {
	m := hmac.New(sha256.New, key)
	m.Write(data)
	return m.Sum(nil)
}
func HMAC1(key []byte, parts ...[]byte) []byte {
	m := hmac.New(sha1.New, key)
	for _, p := range parts {
		m.Write(p)
	}
	return m.Sum(nil)
}
func SHA256(b []byte) []byte { s := sha256.Sum256(b); return s[:] }

// DSAPub is a DSA public key in OTR wire form.
type DSAPub struct{ dsa.PublicKey }

func (k *DSAPub) Bytes() []byte {
	b := []byte{0, 0}
	b = PutMPI(b, k.P)
	b = PutMPI(b, k.Q)
	b = PutMPI(b, k.G)
	b = PutMPI(b, k.Y)
	return b
}
func (k *DSAPub) Fingerprint() []byte {
	s := sha1.Sum(k.Bytes()[2:])
	return s[:]
}

// ParseDSAPub parses a public key and returns the rest.
func ParseDSAPub(b []byte) (*DSAPub, []byte, error) {
	r := &reader{b: b}
	if t := r.short(); r.err != nil || t != 0 {
		return nil, nil, errors.New("ref: not a DSA key")
	}
	k := &DSAPub{}
	k.P, k.Q, k.G, k.Y = r.mpi(), r.mpi(), r.mpi(), r.mpi()
	if r.err != nil {
		return nil, nil, r.err
	}
	return k, r.rest(), nil
}

func (k *DSAPub) Verify(hashed, sig []byte) bool {
	if len(sig) != 40 {
		return false
	}
	if k.P.Sign() <= 0 || k.Q.Sign() <= 0 || k.G.Sign() <= 0 || k.Y.Sign() <= 0 {
		return false
	}
	return dsa.Verify(&k.PublicKey, hashed, new(big.Int).SetBytes(sig[:20]), new(big.Int).SetBytes(sig[20:]))
}

// DSAPriv signs.
type DSAPriv struct{ dsa.PrivateKey }

func (k *DSAPriv) Pub() *DSAPub { return &DSAPub{k.PublicKey} }
func (k *DSAPriv) Sign(rnd io.Reader, hashed []byte) ([]byte, error) {
	r, s, err := dsa.Sign(rnd, &k.PrivateKey, hashed)
	if err != nil {
		return nil, err
	}
	out := make([]byte, 40)
	r.FillBytes(out[:20])
	s.FillBytes(out[20:])
	return out, nil
}

// SigInput is M_B = MAC_m1(g^signer, g^other, pub, keyid).
func SigInput(m1 []byte, gSigner, gOther *big.Int, pub []byte, keyid uint32) []byte {
	b := PutMPI(nil, gSigner)
	b = PutMPI(b, gOther)
	b = append(b, pub...)
	b = PutWord(b, keyid)
	return HMAC256(m1, b)
}

// SealSignature builds the encrypted signature blob (without length prefix)
// and its truncated MAC.
func SealSignature(rnd io.Reader, c, m1, m2 []byte, gSigner, gOther *big.Int, key *DSAPriv, keyid uint32) (enc, mac []byte, err error) {
	pub := key.Pub().Bytes()
	sig, err := key.Sign(rnd, SigInput(m1, gSigner, gOther, pub, keyid))
	if err != nil {
		return nil, nil, err
	}
	x := append(append([]byte{}, pub...), PutWord(nil, keyid)...)
	x = append(x, sig...)
	enc = CTR(c, nil, x)
	mac = HMAC256(m2, PutData(nil, enc))[:20]
	return enc, mac, nil
}

// OpenedSignature is what is inside an encrypted signature.
type OpenedSignature struct {
	Pub    *DSAPub
	PubRaw []byte
	KeyID  uint32
	Sig    []byte
}

// CheckSigMAC verifies the MAC over the encrypted signature.
func CheckSigMAC(m2, enc, mac []byte) bool {
	return hmac.Equal(HMAC256(m2, PutData(nil, enc))[:20], mac)
}

func OpenSignature(c, enc []byte) (*OpenedSignature, error) {
	x := CTR(c, nil, enc)
	pub, rest, err := ParseDSAPub(x)
	if err != nil {
		return nil, err
	}
	if len(rest) != 44 {
		return nil, errors.New("ref: bad signature block length")
	}
	o := &OpenedSignature{Pub: pub, PubRaw: x[:len(x)-len(rest)]}
	r := &reader{b: rest}
	o.KeyID = r.word()
	o.Sig = r.fixed(40)
	return o, r.err
}
