// Package ref is an independent reference for the OTR v2/v3 wire format and
// key derivations. It uses only the Go standard library and shares no code
// with github.com/coyim/otr3.
package ref

import (
	"bytes"
	"encoding/base64"
	"encoding/binary"
	"errors"
	"fmt"
	"math/big"
	"strconv"
	"strings"
)

// Message type bytes.
const (
	TypeDHCommit  = 0x02
	TypeData      = 0x03
	TypeDHKey     = 0x0a
	TypeRevealSig = 0x11
	TypeSig       = 0x12
)

var ErrShort = errors.New("ref: short input")

type reader struct {
	b   []byte
	pos int
	err error
}

func (r *reader) need(n int) bool {
	if r.err != nil {
		return false
	}
	if n < 0 || len(r.b)-r.pos < n {
		r.err = ErrShort
		return false
	}
	return true
}
func (r *reader) byte() byte {
	if !r.need(1) {
		return 0
	}
	v := r.b[r.pos]
	r.pos++
	return v
}
func (r *reader) short() uint16 {
	if !r.need(2) {
		return 0
	}
	v := binary.BigEndian.Uint16(r.b[r.pos:])
	r.pos += 2
	return v
}
func (r *reader) word() uint32 {
	if !r.need(4) {
		return 0
	}
	v := binary.BigEndian.Uint32(r.b[r.pos:])
	r.pos += 4
	return v
}
func (r *reader) fixed(n int) []byte {
	if !r.need(n) {
		return nil
	}
	v := r.b[r.pos : r.pos+n]
	r.pos += n
	return v
}
func (r *reader) data() []byte {
	n := r.word()
	if r.err != nil {
		return nil
	}
	if uint64(n) > uint64(len(r.b)-r.pos) {
		r.err = ErrShort
		return nil
	}
	return r.fixed(int(n))
}
func (r *reader) mpi() *big.Int {
	d := r.data()
	if r.err != nil {
		return nil
	}
	return new(big.Int).SetBytes(d)
}
func (r *reader) rest() []byte { return r.b[r.pos:] }

// PutWord etc. are the serialisation primitives.
func PutShort(b []byte, v uint16) []byte { return append(b, byte(v>>8), byte(v)) }
func PutWord(b []byte, v uint32) []byte {
	return append(b, byte(v>>24), byte(v>>16), byte(v>>8), byte(v))
}
func PutData(b, d []byte) []byte { return append(PutWord(b, uint32(len(d))), d...) }
func PutMPI(b []byte, v *big.Int) []byte {
	return PutData(b, v.Bytes())
}

// Armor / dearmor.
func Armor(raw []byte) []byte {
	return []byte("?OTR:" + base64.StdEncoding.EncodeToString(raw) + ".")
}

func Dearmor(m []byte) ([]byte, error) {
	if !bytes.HasPrefix(m, []byte("?OTR:")) || len(m) < 6 || m[len(m)-1] != '.' {
		return nil, errors.New("ref: not an armoured message")
	}
	return base64.StdEncoding.DecodeString(string(m[5 : len(m)-1]))
}

// Header of a binary message.
type Header struct {
	Version  int
	Type     byte
	ST, RT   uint32 // instance tags, v3 only
	HdrLen   int
	Raw      []byte // whole decoded message
	HdrBytes []byte
	Body     []byte
}

func ParseHeader(raw []byte) (*Header, error) {
	r := &reader{b: raw}
	h := &Header{Raw: raw}
	h.Version = int(r.short())
	h.Type = r.byte()
	if r.err != nil {
		return nil, r.err
	}
	switch h.Version {
	case 2:
	case 3:
		h.ST = r.word()
		h.RT = r.word()
		if r.err != nil {
			return nil, r.err
		}
	default:
		return h, fmt.Errorf("ref: version %d", h.Version)
	}
	h.HdrLen = r.pos
	h.HdrBytes = raw[:r.pos]
	h.Body = raw[r.pos:]
	return h, nil
}

func BuildHeader(version int, typ byte, st, rt uint32) []byte {
	b := PutShort(nil, uint16(version))
	b = append(b, typ)
	if version == 3 {
		b = PutWord(b, st)
		b = PutWord(b, rt)
	}
	return b
}

type DHCommit struct{ EncGx, HashGx []byte }
type DHKey struct{ Gy *big.Int }
type RevealSig struct{ R, EncSig, MAC, Rest []byte }
type Sig struct{ EncSig, MAC, Rest []byte }
type Data struct {
	Flag       byte
	SKID, RKID uint32
	Y          *big.Int
	Ctr        [8]byte
	Enc        []byte
	MAC        []byte
	OldMACs    []byte
	AuthPart   []byte // body bytes covered by the MAC (without header)
	Trailing   []byte
}

func ParseDHCommit(body []byte) (*DHCommit, error) {
	r := &reader{b: body}
	m := &DHCommit{EncGx: r.data(), HashGx: r.data()}
	return m, r.err
}
func (m *DHCommit) Bytes() []byte { return PutData(PutData(nil, m.EncGx), m.HashGx) }

func ParseDHKey(body []byte) (*DHKey, error) {
	r := &reader{b: body}
	m := &DHKey{Gy: r.mpi()}
	return m, r.err
}
func (m *DHKey) Bytes() []byte { return PutMPI(nil, m.Gy) }

func ParseRevealSig(body []byte) (*RevealSig, error) {
	r := &reader{b: body}
	m := &RevealSig{R: r.data(), EncSig: r.data(), MAC: r.fixed(20)}
	if r.err == nil {
		m.Rest = r.rest()
	}
	return m, r.err
}
func (m *RevealSig) Bytes() []byte {
	return append(PutData(PutData(nil, m.R), m.EncSig), m.MAC...)
}
func ParseSig(body []byte) (*Sig, error) {
	r := &reader{b: body}
	m := &Sig{EncSig: r.data(), MAC: r.fixed(20)}
	if r.err == nil {
		m.Rest = r.rest()
	}
	return m, r.err
}
func (m *Sig) Bytes() []byte { return append(PutData(nil, m.EncSig), m.MAC...) }

func ParseData(body []byte) (*Data, error) {
	r := &reader{b: body}
	m := &Data{}
	m.Flag = r.byte()
	m.SKID = r.word()
	m.RKID = r.word()
	m.Y = r.mpi()
	copy(m.Ctr[:], r.fixed(8))
	m.Enc = r.data()
	if r.err != nil {
		return nil, r.err
	}
	m.AuthPart = body[:r.pos]
	m.MAC = r.fixed(20)
	m.OldMACs = r.data()
	if r.err != nil {
		return nil, r.err
	}
	m.Trailing = r.rest()
	return m, nil
}

func (m *Data) Unsigned() []byte {
	b := []byte{m.Flag}
	b = PutWord(b, m.SKID)
	b = PutWord(b, m.RKID)
	b = PutMPI(b, m.Y)
	b = append(b, m.Ctr[:]...)
	b = PutData(b, m.Enc)
	return b
}
func (m *Data) Bytes() []byte {
	b := m.Unsigned()
	b = append(b, m.MAC...)
	b = PutData(b, m.OldMACs)
	return b
}

// TLV of a data message's plaintext.
type TLV struct {
	Type  uint16
	Value []byte
}

// SplitPlain splits decrypted data message content into text and TLVs.
func SplitPlain(p []byte) (text []byte, tlvs []TLV, err error) {
	i := bytes.IndexByte(p, 0)
	if i < 0 {
		return p, nil, nil
	}
	text = p[:i]
	r := &reader{b: p[i+1:]}
	for r.pos < len(r.b) {
		t := r.short()
		n := r.short()
		v := r.fixed(int(n))
		if r.err != nil {
			return text, tlvs, r.err
		}
		tlvs = append(tlvs, TLV{t, v})
	}
	return text, tlvs, nil
}

func JoinPlain(text []byte, tlvs []TLV) []byte {
	b := append([]byte{}, text...)
	b = append(b, 0)
	for _, t := range tlvs {
		b = PutShort(b, t.Type)
		b = PutShort(b, uint16(len(t.Value)))
		b = append(b, t.Value...)
	}
	return b
}

// Fragment is a parsed fragment line.
type Fragment struct {
	Version int
	ST, RT  uint32
	K, N    int
	Piece   []byte
}

// ParseFragment parses "?OTR|st|rt,k,n,piece," and "?OTR,k,n,piece,".
func ParseFragment(m []byte) (*Fragment, error) {
	s := string(m)
	f := &Fragment{}
	switch {
	case strings.HasPrefix(s, "?OTR|"):
		f.Version = 3
		s = s[5:]
		parts := strings.SplitN(s, ",", 2)
		if len(parts) != 2 {
			return nil, errors.New("ref: bad v3 fragment")
		}
		tags := strings.Split(parts[0], "|")
		if len(tags) != 2 {
			return nil, errors.New("ref: bad v3 fragment tags")
		}
		st, e1 := strconv.ParseUint(tags[0], 16, 32)
		rt, e2 := strconv.ParseUint(tags[1], 16, 32)
		if e1 != nil || e2 != nil {
			return nil, errors.New("ref: bad v3 fragment tags")
		}
		f.ST, f.RT = uint32(st), uint32(rt)
		s = parts[1]
	case strings.HasPrefix(s, "?OTR,"):
		f.Version = 2
		s = s[5:]
	default:
		return nil, errors.New("ref: not a fragment")
	}
	parts := strings.Split(s, ",")
	if len(parts) != 4 || parts[3] != "" {
		return nil, errors.New("ref: bad fragment fields")
	}
	k, e1 := strconv.Atoi(parts[0])
	n, e2 := strconv.Atoi(parts[1])
	if e1 != nil || e2 != nil {
		return nil, errors.New("ref: bad fragment index")
	}
	f.K, f.N, f.Piece = k, n, []byte(parts[2])
	return f, nil
}

// Reassemble joins an in-order list of fragment lines (or returns the single
// unfragmented message).
func Reassemble(msgs [][]byte) ([]byte, error) {
	if len(msgs) == 1 && !bytes.HasPrefix(msgs[0], []byte("?OTR|")) && !bytes.HasPrefix(msgs[0], []byte("?OTR,")) {
		return msgs[0], nil
	}
	var out []byte
	for i, m := range msgs {
		f, err := ParseFragment(m)
		if err != nil {
			return nil, err
		}
		if f.K != i+1 || f.N != len(msgs) {
			return nil, fmt.Errorf("ref: fragment %d/%d at position %d of %d", f.K, f.N, i+1, len(msgs))
		}
		out = append(out, f.Piece...)
	}
	return out, nil
}
