package world

import (
	"bytes"

	"crypto/hmac"
	"encoding/binary"
	otr3 "github.com/coyim/otr3"
	"strings"

	"verif/harness/ref"
)

// M is an abstract message / state record (becomes a TLA+ record via JSON).
type M = map[string]interface{}

var wsHeader = []byte(" \t  \t\t\t\t \t \t \t  ")
var wsV2 = []byte("  \t\t  \t ")
var wsV3 = []byte("  \t\t  \t\t")

func clipCtr(v uint64) int {
	if v > 1000000000 {
		return 1000000000
	}
	return int(v)
}

// TagClass maps an instance tag to a small integer: 0 zero, -1 malformed
// (<0x100), 1 A's, 2 B's, 3, 4, ... other valid tags in order of appearance.
func (w *World) TagClass(t uint32) int {
	switch {
	case t == 0:
		return 0
	case t < 0x100:
		return -1
	}
	for i, n := range []string{"A", "B"} {
		if p := w.P[n]; p != nil && p.Tag != 0 && p.Tag == t {
			return i + 1
		}
	}
	if w.otherTags == nil {
		w.otherTags = map[uint32]int{}
	}
	if c, ok := w.otherTags[t]; ok {
		return c
	}
	c := 3 + len(w.otherTags)
	w.otherTags[t] = c
	return c
}

func versionsList(two, three bool, others ...int) []int {
	out := []int{}
	if two {
		out = append(out, 2)
	}
	if three {
		out = append(out, 3)
	}
	return append(out, others...)
}

// Abs decodes a wire message (given as its fragments in order, or a single
// unfragmented message) into an abstract record. from/to are hints for key
// resolution only.
func (w *World) Abs(raw [][]byte, from, to string) M {
	full, err := ref.Reassemble(raw)
	if err != nil {
		return garbage("fragments", 0, 0, 0, 0, 0)
	}
	m := w.absWhole(full, from, to)
	m["nf"] = len(raw)
	m["xt"] = extractAgrees(raw, full)
	return m
}

// extractAgrees compares the library's public routing helper ExtractInstanceTags with the
// reference's reading of the tags, on the whole message and on every fragment (v3 only; other
// messages carry no tags and the helper must say so).
func extractAgrees(pieces [][]byte, full []byte) bool {
	check := func(b []byte) bool {
		ours, theirs, ok := otr3.ExtractInstanceTags(b)
		switch {
		case bytes.HasPrefix(b, []byte("?OTR|")):
			f, err := ref.ParseFragment(b)
			if err != nil {
				return true // the reference cannot read it either: nothing to compare
			}
			return ok && ours == f.RT && theirs == f.ST
		case bytes.HasPrefix(b, []byte("?OTR:")):
			raw, err := ref.Dearmor(b)
			if err != nil {
				return !ok
			}
			h, err := ref.ParseHeader(raw)
			if err != nil || h.Version != 3 {
				return true // no instance tags in this message: the helper's answer is not specified
			}
			return ok && ours == h.RT && theirs == h.ST
		default:
			return !ok
		}
	}
	for _, p := range pieces {
		if !check(p) {
			return false
		}
	}
	return check(full)
}

func (w *World) absWhole(full []byte, from, to string) M {
	s := string(full)
	switch {
	case strings.HasPrefix(s, "?OTR:"):
		return w.absEncoded(full, from, to)
	case strings.HasPrefix(s, "?OTR Error:"):
		// which error code the text was generated for (the harness's handler names the code in its text)
		code := "other"
		switch {
		case strings.Contains(s, "verif-error-ErrorCodeMessageUnreadable"):
			code = "unreadable"
		case strings.Contains(s, "verif-error-ErrorCodeMessageMalformed"):
			code = "malformed"
		case strings.Contains(s, "verif-error-ErrorCodeEncryptionError"):
			code = "encryption"
		case strings.Contains(s, "verif-error-"):
			code = "unexpected"
		}
		return M{"t": "E", "code": code}
	case strings.HasPrefix(s, "?OTR?") || strings.HasPrefix(s, "?OTRv"):
		// a text the user typed that begins like a query: to the sender it is a text, to whoever
		// receives it a query (q = the versions it names)
		if id, tagged, tag := w.userText(full); id > 0 {
			return M{"t": "P", "text": id, "tag": tag, "tagged": tagged, "q": parseQueryVersions(s)}
		}
		return M{"t": "Q", "vs": parseQueryVersions(s)}
	case strings.HasPrefix(s, "?OTR|") || strings.HasPrefix(s, "?OTR,"):
		return garbage("strayfragment", 0, 0, 0, 0, 0)
	case strings.HasPrefix(s, "?OTR"):
		return garbage("unknown", 0, 0, 0, 0, 0)
	}
	if i := bytes.Index(full, wsHeader); i >= 0 {
		rest := full[i+len(wsHeader):]
		two, three := false, false
		for len(rest) >= 8 && len(bytes.Trim(rest[:8], " \t")) == 0 {
			if bytes.Equal(rest[:8], wsV2) {
				two = true
			} else if bytes.Equal(rest[:8], wsV3) {
				three = true
			}
			rest = rest[8:]
		}
		txt := append(append([]byte{}, full[:i]...), rest...)
		id, _ := w.Reg.TextID(txt)
		return M{"t": "P", "text": id, "tag": versionsList(two, three), "tagged": true}
	}
	id, _ := w.Reg.TextID(full)
	return M{"t": "P", "text": id, "tag": []int{}, "tagged": false}
}

// userText recognises a registered user text, with or without a trailing whitespace tag.
func (w *World) userText(full []byte) (id int, tagged bool, tag []int) {
	if id, _ := w.Reg.TextID(full); id > 0 {
		return id, false, []int{}
	}
	if i := bytes.Index(full, wsHeader); i >= 0 {
		rest := full[i+len(wsHeader):]
		two, three := false, false
		for len(rest) >= 8 && len(bytes.Trim(rest[:8], " \t")) == 0 {
			if bytes.Equal(rest[:8], wsV2) {
				two = true
			} else if bytes.Equal(rest[:8], wsV3) {
				three = true
			}
			rest = rest[8:]
		}
		txt := append(append([]byte{}, full[:i]...), rest...)
		if id, _ := w.Reg.TextID(txt); id > 0 {
			return id, true, versionsList(two, three)
		}
	}
	return 0, false, nil
}

func parseQueryVersions(s string) []int {
	vs := map[int]bool{}
	rest := s[4:]
	if strings.HasPrefix(rest, "?") {
		vs[1] = true
		rest = rest[1:]
	}
	if strings.HasPrefix(rest, "v") {
		for _, ch := range rest[1:] {
			if ch == '?' {
				break
			}
			if ch >= '0' && ch <= '9' {
				vs[int(ch-'0')] = true
			}
		}
	}
	out := []int{}
	for v := 0; v < 10; v++ {
		if vs[v] {
			out = append(out, v)
		}
	}
	return out
}

var knownPrefixes = []string{"?OTR:AAMC", "?OTR:AAIC", "?OTR:AAMK", "?OTR:AAIK", "?OTR:AAMR", "?OTR:AAIR",
	"?OTR:AAMS", "?OTR:AAIS", "?OTR:AAED", "?OTR:AAID", "?OTR:AAMD"}

func garbage(why string, v int, st, rt int, typ int, flag int) M {
	return M{"t": "G", "why": why, "v": v, "st": st, "rt": rt, "typ": typ, "flag": flag}
}

func (w *World) absEncoded(full []byte, from, to string) M {
	kp := false
	for _, p := range knownPrefixes {
		if strings.HasPrefix(string(full), p) {
			kp = true
		}
	}
	if strings.HasPrefix(string(full), "?OTR:AAEK") {
		return garbage("v1", 1, 0, 0, 0, 0)
	}
	if !kp {
		return garbage("unknown", 0, 0, 0, 0, 0)
	}
	raw, err := ref.Dearmor(full)
	if err != nil {
		return garbage("armour", 0, 0, 0, 0, 0)
	}
	if len(raw) < 2 {
		return garbage("short0", 0, 0, 0, 0, 0)
	}
	ver := int(raw[0])<<8 | int(raw[1])
	if ver != 2 && ver != 3 {
		return garbage("version", clipCtr(uint64(ver)), 0, 0, 0, 0)
	}
	h, err := ref.ParseHeader(raw)
	if err != nil {
		return garbage("hdrshort", ver, 0, 0, 0, 0)
	}
	m := M{"v": h.Version, "st": w.TagClass(h.ST), "rt": w.TagClass(h.RT)}
	g := func(why string, flag int) M {
		return garbage(why, h.Version, w.TagClass(h.ST), w.TagClass(h.RT), int(h.Type), flag)
	}
	switch h.Type {
	case ref.TypeDHCommit:
		c, err := ref.ParseDHCommit(h.Body)
		if err != nil {
			return g("dhcommit", 0)
		}
		m["t"] = "DHC"
		enc, hash := -1, -1
		for _, s := range w.Reg.Secrets {
			mpi := ref.PutMPI(nil, s.Pub)
			if s.R != nil && enc == -1 && bytes.Equal(ref.CTR(s.R, nil, mpi), c.EncGx) {
				enc = s.ID
			}
			if hash == -1 && bytes.Equal(ref.SHA256(mpi), c.HashGx) {
				hash = s.ID
			}
		}
		if enc == -1 {
			// an attacker-built commitment to a degenerate value
			if id, ok := w.EvilCommits[string(c.EncGx)]; ok {
				enc = id
				if bytes.Equal(ref.SHA256(ref.PutMPI(nil, w.EvilValues[id])), c.HashGx) {
					hash = id
				}
			}
		}
		if len(c.EncGx) == 0 {
			enc = 0
		}
		if len(c.HashGx) == 0 {
			hash = 0
		}
		m["enc"], m["hash"] = enc, hash
		m["hashraw"] = c.HashGx
	case ref.TypeDHKey:
		k, err := ref.ParseDHKey(h.Body)
		if err != nil {
			return g("dhkey", 0)
		}
		m["t"] = "DHK"
		m["gy"] = w.Reg.PubID(k.Gy)
	case ref.TypeRevealSig:
		r, err := ref.ParseRevealSig(h.Body)
		if err != nil || len(r.R) != 16 || len(r.Rest) != 0 {
			return g("revealsig", 0)
		}
		m["t"] = "RS"
		rid := -1
		for _, s := range w.Reg.Secrets {
			if s.R != nil && bytes.Equal(s.R, r.R) {
				rid = s.ID
			}
		}
		if id, ok := w.EvilRs[string(r.R)]; ok {
			rid = id
		}
		m["r"] = rid
		m["xs"] = w.absSigBlob(r.EncSig, r.MAC, from, to)
	case ref.TypeSig:
		r, err := ref.ParseSig(h.Body)
		if err != nil || len(r.Rest) != 0 {
			return g("sig", 0)
		}
		m["t"] = "SIG"
		m["xs"] = w.absSigBlob(r.EncSig, r.MAC, from, to)
	case ref.TypeData:
		flag := 0
		if len(h.Body) > 0 {
			flag = int(h.Body[0])
		}
		d, err := ref.ParseData(h.Body)
		if err != nil || binary.BigEndian.Uint64(d.Ctr[:]) == 0 || len(d.OldMACs)%20 != 0 {
			return g("data", flag)
		}
		w.absData(m, h, d, from, to)
	default:
		return g("type", 0)
	}
	return m
}

// absSigBlob resolves an encrypted signature: which DH pair's keys MAC it,
// whose long-term key is inside and whether the DSA signature is valid for
// that pair.
func (w *World) absSigBlob(enc, mac []byte, from, to string) M {
	out := M{"ok": false, "kind": "?", "s1": 0, "s2": 0, "pub": "?", "kid": 0, "sig": false}
	tried := map[[2]int]bool{}
	w.Reg.candidatePairs(from, to, func(a, b *Secret) bool {
		key := [2]int{a.ID, b.ID}
		if a.ID > b.ID {
			key = [2]int{b.ID, a.ID}
		}
		if tried[key] {
			return false
		}
		tried[key] = true
		k := w.Reg.AKE(a, b)
		kind := ""
		var c, m1 []byte
		switch {
		case ref.CheckSigMAC(k.M2, enc, mac):
			kind, c, m1 = "R", k.C, k.M1
		case ref.CheckSigMAC(k.M2p, enc, mac):
			kind, c, m1 = "S", k.Cp, k.M1p
		default:
			return false
		}
		out["ok"], out["kind"] = true, kind
		// default orientation: sender's secret first
		s1, s2 := a, b
		if b.Owner == from && a.Owner != from {
			s1, s2 = b, a
		}
		o, err := ref.OpenSignature(c, enc)
		if err == nil {
			out["pub"] = w.Reg.FPName(o.Pub.Fingerprint())
			out["kid"] = int(o.KeyID)
			if o.Pub.Verify(ref.SigInput(m1, s1.Pub, s2.Pub, o.PubRaw, o.KeyID), o.Sig) {
				out["sig"] = true
			} else if o.Pub.Verify(ref.SigInput(m1, s2.Pub, s1.Pub, o.PubRaw, o.KeyID), o.Sig) {
				s1, s2 = s2, s1
				out["sig"] = true
			}
		}
		out["s1"], out["s2"] = s1.ID, s2.ID
		return true
	})
	return out
}

func (w *World) absData(m M, h *ref.Header, d *ref.Data, from, to string) {
	m["t"] = "D"
	m["flag"] = int(d.Flag)
	m["skid"] = clipCtr(uint64(d.SKID))
	m["rkid"] = clipCtr(uint64(d.RKID))
	m["next"] = w.Reg.PubID(d.Y)
	m["ctr"] = clipCtr(binary.BigEndian.Uint64(d.Ctr[:]))
	m["mac"] = []int{0, 0}
	m["text"] = -1
	m["rs"] = false
	m["tlvs"] = []int{}
	m["smp"] = M{"k": 0, "sec": []interface{}{}, "ok": "ok", "run": 0}
	m["pad"] = "unknown"
	m["trail"] = len(d.Trailing)
	var keys *ref.SessionKeys
	w.Reg.candidatePairs(from, to, func(a, b *Secret) bool {
		k := w.Reg.Sess(a, b)
		if hmac.Equal(ref.HMAC1(k.SendMAC, h.HdrBytes, d.AuthPart), d.MAC) {
			m["mac"] = []int{a.ID, b.ID}
			keys = k
			return true
		}
		return false
	})
	if keys != nil {
		pt := ref.CTR(keys.SendAES, d.Ctr[:], d.Enc)
		text, tlvs, err := ref.SplitPlain(pt)
		id, resent := w.Reg.TextID(text)
		m["text"], m["rs"] = id, resent
		tl := []int{}
		for _, t := range tlvs {
			if t.Type != 0 {
				tl = append(tl, int(t.Type))
			}
		}
		if err != nil {
			tl = append(tl, -1)
		}
		m["tlvs"] = tl
		// the OTR padding rule: one padding TLV (type 0) at the end, of length
		// 256 - ((len(text) + 5) mod 256), all zero bytes
		pad := "absent"
		if n := len(tlvs); n > 0 && tlvs[n-1].Type == 0 {
			want := 256 - ((len(text) + 5) % 256)
			pad = "bad"
			if len(tlvs[n-1].Value) == want && len(bytes.Trim(tlvs[n-1].Value, "\x00")) == 0 {
				pad = "ok"
			}
		}
		m["pad"] = pad
		// SMP payload: type of the (last non-abort) SMP TLV, the sender's bound secret term
		k := 0
		for _, t := range tlvs {
			if t.Type >= 2 && t.Type <= 7 && (t.Type != 6 || k == 0) {
				k = int(t.Type)
			}
		}
		if k != 0 {
			sec := []interface{}{}
			if sp := w.P[from]; sp != nil && (k == 3 || k == 4 || k == 5) && sp.SMPTerm != nil {
				sec = sp.SMPTerm
			}
			ok := "ok"
			if w.SMPClass != "" {
				ok = w.SMPClass
			}
			run := 0
			if sp := w.P[from]; sp != nil && k != 6 {
				run = sp.SMPRun
			}
			m["smp"] = M{"k": k, "sec": sec, "ok": ok, "run": run}
		}
		w.lastPlain = pt
		w.lastTLVs = tlvs
		w.lastKeys = keys
	}
	discl := [][]int{}
	if len(d.OldMACs)%20 != 0 {
		discl = append(discl, []int{-2, -2})
	} else {
		for i := 0; i+20 <= len(d.OldMACs); i += 20 {
			discl = append(discl, w.resolveMACKey(d.OldMACs[i:i+20], from, to))
		}
	}
	m["discl"] = discl
}

// resolveMACKey names a disclosed MAC key as the ordered pair (x, y): it is
// the key that authenticates messages from owner(x) to owner(y).
func (w *World) resolveMACKey(k []byte, from, to string) []int {
	if p, ok := w.Reg.macIdx[string(k)]; ok {
		return []int{p[0], p[1]}
	}
	res := []int{-1, -1}
	w.Reg.candidatePairs(to, from, func(a, b *Secret) bool {
		if bytes.Equal(w.Reg.Sess(a, b).SendMAC, k) {
			res = []int{a.ID, b.ID}
			return true
		}
		return false
	})
	return res
}
