package world

import (
	"bufio"
	"bytes"
	"crypto/dsa"
	"encoding/hex"
	"encoding/json"
	"fmt"
	"io"
	"math/big"
	"os"
	"runtime"
	"runtime/debug"
	"sort"
	"strings"
	"time"

	otr3 "github.com/coyim/otr3"

	"verif/harness/ref"
)

// Policy bits (mirrors the public Policies methods).
type Policy struct {
	V2, V3, Req, WsTag, WsStart, ErrStart bool
}

func (p Policy) M() M {
	return M{"v2": p.V2, "v3": p.V3, "req": p.Req, "wstag": p.WsTag, "wsstart": p.WsStart, "errstart": p.ErrStart}
}

func PolicyFromBits(b int) Policy {
	return Policy{b&1 != 0, b&2 != 0, b&4 != 0, b&8 != 0, b&16 != 0, b&32 != 0}
}

// WireMsg is one message put on the wire (all its fragments).
type WireMsg struct {
	ID       int
	From, To string
	Raw      [][]byte
	Abs      M
	HashRaw  []byte
	Keys     *ref.SessionKeys // data messages: the keys that authenticate and encrypt it (nil if none do)
}

// Party wraps one real conversation.
type Party struct {
	Name     string
	Peer     string
	// KeyName is the principal whose long-term key the party signs with
	KeyName string
	// Cc: further endpoints that receive everything this party sends (the peer's account is logged in
	// from more than one client; the transport hands a message to all of them)
	Cc []string
	Conv     *otr3.Conversation
	Rand     *JRand
	Priv     *otr3.DSAPrivateKey
	Pol      Policy
	Tag      uint32
	Queue    []*WireMsg // messages waiting to be delivered to this party
	evs      []string
	watch    map[int][]watched
	w        *World
	ErrMsg   bool
	randSeen int
	// Mute: events of this party are not written to the trace (attacker-run endpoints)
	Mute bool
	// lastCall is when the previous call on this party's conversation started (clock compensation)
	lastCall time.Time
	// NoKeys: the conversation has no long-term key; what it then does is not specified (its calls
	// are adopted without comparison), only that nothing crashes and the peer stays conformant
	NoKeys bool
	// SMPTerm is the secret term the party bound in its current SMP run:
	// [initiator, responder, session pair..., secret id]
	SMPTerm []interface{}
	// SMPRun identifies the SMP run the party takes part in (set when it starts one, or when
	// the library reports that it accepted the peer's first message)
	SMPRun int
}

// watched is a piece of the conversation's memory that held a secret when it was last looked at
type watched struct {
	mem   []byte
	words bool
	path  string
}

// World is two (or more) parties, the wire between them and the trace.
type World struct {
	Seed          uint64
	Reg           *Registry
	P             map[string]*Party
	Wire          []*WireMsg
	Trace         *bufio.Writer
	N             int // events written
	Panics        []string
	lastPlain     []byte
	lastTLVs      []ref.TLV
	lastKeys      *ref.SessionKeys
	lastExtra     []byte
	lastUsage     uint32
	lastUsageData []byte
	ssidIdx       map[[8]byte][2]int
	otherTags     map[uint32]int
	// SMPClass, when set, is the validity class ("bad", "corrupt") of the SMP payload of the
	// attacker-made message being decoded
	SMPClass string
	smpRuns  int
	// Scan enables the object-graph scan for retained secrets and texts after every call
	Scan        bool
	lastInLen   int
	expectUsage *usageRec
	curKeys     *ref.SessionKeys
	EvilCommits map[string]int
	EvilRs      map[string]int
	EvilValues  map[int]*big.Int
	// MaxCallMs is the slowest API call seen.
	MaxCallMs float64
	TextGen   func(id int) []byte
	// TextBase is added to the text ids of Send steps (6000: texts that begin like a query message)
	TextBase int
	// Hook is called after each event with the event record (monitors).
	Hook func(ev M, p *Party)
	bufs map[string][]byte
	// KeepRaw makes events carry the raw bytes (hex) of inputs and outputs.
	KeepRaw bool
}

func hexBig(s string) *big.Int {
	v, ok := new(big.Int).SetString(s, 16)
	if !ok {
		panic("bad hex")
	}
	return v
}

// DSAKey returns the fixed long-term key of the named principal.
func DSAKey(name string) (*otr3.DSAPrivateKey, *ref.DSAPriv) {
	xy := dsaXY[name]
	var k dsa.PrivateKey
	k.P, k.Q, k.G = hexBig(dsaP), hexBig(dsaQ), hexBig(dsaG)
	k.X, k.Y = hexBig(xy[0]), hexBig(xy[1])
	o := &otr3.DSAPrivateKey{}
	o.PrivateKey = k
	o.DSAPublicKey.PublicKey = k.PublicKey
	return o, &ref.DSAPriv{PrivateKey: k}
}

func New(seed uint64, trace io.Writer) *World {
	w := &World{Seed: seed, Reg: NewRegistry(), P: map[string]*Party{}, EvilCommits: map[string]int{}, EvilRs: map[string]int{}, EvilValues: map[int]*big.Int{}}
	if trace != nil {
		w.Trace = bufio.NewWriterSize(trace, 1<<20)
	}
	for _, n := range []string{"A", "B", "E", "X"} {
		_, rk := DSAKey(n)
		w.Reg.AddDSA(n, rk.Pub())
	}
	w.TextGen = func(id int) []byte {
		core := fmt.Sprintf("text-%d-%x", id, seed&0xffff)
		if id >= 6000 && id < 7000 {
			// texts a user might type by hand that begin like a query message
			return []byte([]string{"?OTRv3? ", "?OTRv23? ", "?OTR?v2? ", "?OTRv2?", "?OTR? "}[id%5] + core)
		}
		if id >= 7000 && id < 9000 {
			// a text of exactly id-7000 bytes (lengths around the padding boundaries)
			n := id - 7000
			b := []byte(core + "-")
			for len(b) < n {
				b = append(b, "abcdefghijklmnopqrstuvwxyz0123456789 "[len(b)%37])
			}
			return b[:max(n, 1)]
		}
		if id%5 == 4 {
			// trailing blanks belong to the text
			return []byte(core + "  \t ")
		}
		return []byte(core)
	}
	return w
}

// AddParty creates a fresh conversation. version 0 leaves the version to be
// negotiated; 2 or 3 pre-commits it (NewConversationWithVersion).
func (w *World) AddParty(name, peer string, pol Policy, version int) *Party {
	return w.AddPartyKey(name, peer, pol, version, name)
}

// AddPartyKey is AddParty with the long-term key of another principal (attacker-run endpoints).
func (w *World) AddPartyKey(name, peer string, pol Policy, version int, keyName string) *Party {
	p := &Party{Name: name, Peer: peer, Pol: pol, w: w, ErrMsg: true, KeyName: keyName}
	if version == 0 {
		p.Conv = &otr3.Conversation{}
	} else {
		p.Conv = otr3.NewConversationWithVersion(version)
	}
	p.Rand = NewJRand(name, w.Seed, w.Reg)
	p.Conv.Rand = p.Rand
	p.Priv, _ = DSAKey(keyName)
	p.Conv.SetOurKeys([]otr3.PrivateKey{p.Priv})
	if pol.V2 {
		p.Conv.Policies.AllowV2()
	}
	if pol.V3 {
		p.Conv.Policies.AllowV3()
	}
	if pol.Req {
		p.Conv.Policies.RequireEncryption()
	}
	if pol.WsTag {
		p.Conv.Policies.SendWhitespaceTag()
	}
	if pol.WsStart {
		p.Conv.Policies.WhitespaceStartAKE()
	}
	if pol.ErrStart {
		p.Conv.Policies.ErrorStartAKE()
	}
	p.Conv.SetSecurityEventHandler(secH{p})
	p.Conv.SetMessageEventHandler(msgH{p})
	p.Conv.SetSMPEventHandler(smpH{p})
	p.Conv.SetReceivedKeyHandler(keyH{p})
	p.Conv.SetErrorMessageHandler(errH{p})
	w.P[name] = p
	return p
}

type secH struct{ p *Party }

func (h secH) HandleSecurityEvent(e otr3.SecurityEvent) { h.p.evs = append(h.p.evs, "sec:"+e.String()) }

type msgH struct{ p *Party }

func (h msgH) HandleMessageEvent(e otr3.MessageEvent, m []byte, err error, tr ...interface{}) {
	h.p.evs = append(h.p.evs, "msg:"+strings.TrimPrefix(e.String(), "MessageEvent"))
}

type smpH struct{ p *Party }

func (h smpH) HandleSMPEvent(e otr3.SMPEvent, pp int, q string) {
	h.p.evs = append(h.p.evs, "smp:"+strings.TrimPrefix(e.String(), "SMPEvent"))
}

type keyH struct{ p *Party }

func (h keyH) ReceivedSymmetricKey(usage uint32, usageData []byte, symkey []byte) {
	// the key handed to the application must be the one the specification derives for the key pair
	// that authenticated the message (h2(0xff, s)), usage and usage data as sent
	ev := "key:extra"
	if k := h.p.w.curKeys; k == nil || !bytes.Equal(k.Extra, symkey) {
		ev = "key:extra-wrong-key"
	}
	if h.p.w.expectUsage != nil && (usage != h.p.w.expectUsage.usage || !bytes.Equal(usageData, h.p.w.expectUsage.data)) {
		ev = "key:extra-wrong-usage"
	}
	h.p.evs = append(h.p.evs, ev)
	h.p.w.lastExtra = append([]byte{}, symkey...)
	h.p.w.lastUsage = usage
	h.p.w.lastUsageData = append([]byte{}, usageData...)
}

type errH struct{ p *Party }

func (h errH) HandleErrorMessage(e otr3.ErrorCode) []byte {
	if !h.p.ErrMsg {
		return nil
	}
	return []byte("verif-error-" + e.String())
}

// Text returns (and registers) the bytes of text id.
func (w *World) Text(id int) []byte {
	if b, ok := w.Reg.Texts[id]; ok {
		return b
	}
	b := w.TextGen(id)
	w.Reg.AddText(id, b)
	return b
}

// ---------------------------------------------------------------------------
// abstract state

var msNames = []string{"plain", "enc", "fin"}

func (w *World) AbsState(p *Party) M {
	s := otr3.VerifProject(p.Conv)
	if p.Tag == 0 && s.OurTag != 0 {
		p.Tag = s.OurTag
	}
	st := M{}
	st["ms"] = msNames[s.MsgState]
	st["ver"] = s.Version
	st["ws"] = s.WhitespaceState
	auth := "nil"
	if s.AKE.Present {
		auth = s.AKE.State
	}
	st["auth"] = auth
	st["ax"] = w.Reg.PrivID(s.AKE.Secret)
	st["agy"] = w.Reg.PubIDBytes(s.AKE.TheirPub)
	aenc, ahash := 0, 0
	if len(s.AKE.EncryptedGx) > 0 {
		aenc = -1
	}
	if len(s.AKE.HashedGx) > 0 {
		ahash = -1
	}
	if aenc != 0 || ahash != 0 {
		for _, sec := range w.Reg.Secrets {
			mpi := ref.PutMPI(nil, sec.Pub)
			if sec.R != nil && aenc == -1 && bytes.Equal(ref.CTR(sec.R, nil, mpi), s.AKE.EncryptedGx) {
				aenc = sec.ID
			}
			if ahash == -1 && bytes.Equal(ref.SHA256(mpi), s.AKE.HashedGx) {
				ahash = sec.ID
			}
		}
	}
	if aenc == -1 {
		if id, ok := w.EvilCommits[string(s.AKE.EncryptedGx)]; ok {
			aenc = id
			if ahash == -1 && bytes.Equal(ref.SHA256(ref.PutMPI(nil, w.EvilValues[id])), s.AKE.HashedGx) {
				ahash = id
			}
		}
	}
	st["aenc"], st["ahash"] = aenc, ahash
	st["akid"], st["atid"] = int(s.AKE.OurKeyID), int(s.AKE.TheirKeyID)
	st["oid"], st["tid"] = int(s.OurKeyID), int(s.TheirKeyID)
	st["cur"], st["prev"] = w.Reg.PrivID(s.OurCurPriv), w.Reg.PrivID(s.OurPrevPriv)
	st["tcur"], st["tprev"] = w.Reg.PubIDBytes(s.TheirCurPub), w.Reg.PubIDBytes(s.TheirPrevPub)
	ctrs := [][]int{}
	for _, c := range s.Counters {
		ctrs = append(ctrs, []int{clipCtr(uint64(c.OurKeyID)), clipCtr(uint64(c.TheirKeyID)), clipCtr(c.OurCounter), clipCtr(c.TheirCounter)})
	}
	sort.Slice(ctrs, func(i, j int) bool {
		if ctrs[i][0] != ctrs[j][0] {
			return ctrs[i][0] < ctrs[j][0]
		}
		return ctrs[i][1] < ctrs[j][1]
	})
	st["ctrs"] = ctrs
	macs := [][]int{}
	for _, u := range s.MACHistory {
		k := w.resolveMACKey(u.Key, p.Name, p.Peer)
		macs = append(macs, []int{clipCtr(uint64(u.OurKeyID)), clipCtr(uint64(u.TheirKeyID)), k[0], k[1]})
	}
	st["macs"] = macs
	pend := [][]int{}
	for _, k := range s.OldMACKeys {
		pend = append(pend, w.resolveMACKey(k, p.Name, p.Peer))
	}
	st["pend"] = pend
	st["sess"] = w.resolveSSID(s.SSID)
	st["peer"] = w.Reg.FPName(s.TheirKeyFP)
	st["rev"] = s.SentRevealSig
	st["otag"], st["ttag"] = w.TagClass(s.OurTag), w.TagClass(s.TheirTag)
	st["smp"] = s.SMPState
	st["rsf"] = s.MayRetransmit
	rsq := []int{}
	for _, b := range s.ResendQueue {
		id, _ := w.Reg.TextID(b)
		rsq = append(rsq, id)
	}
	st["rsq"] = rsq
	st["frag"] = []int{int(s.FragIndex), int(s.FragLen)}
	st["hb"] = s.HeartbeatDue
	st["rstep"] = s.AKE.RecentStep
	st["renc"] = s.RecentEnc
	st["inj"] = s.Injections
	held, kept, dirty := []int{}, []int{}, []int{}
	st["smpheld"] = 0
	if w.Scan {
		held, kept, dirty = w.scan(p, st)
	}
	st["held"], st["kept"], st["dirty"] = held, kept, dirty
	st["nctr"], st["nmac"], st["npend"], st["nrsq"] = len(s.Counters), len(s.MACHistory), len(s.OldMACKeys), len(s.ResendQueue)
	// how many entries of the disclosure list repeat an earlier one (byte for byte)
	dup := 0
	seenKeys := map[string]bool{}
	for _, k := range s.OldMACKeys {
		if seenKeys[string(k)] {
			dup++
		}
		seenKeys[string(k)] = true
	}
	st["penddup"] = dup
	return st
}

func (w *World) resolveSSID(ssid [8]byte) []int {
	if ssid == [8]byte{} {
		return []int{0, 0}
	}
	if p, ok := w.ssidIdx[ssid]; ok {
		return []int{p[0], p[1]}
	}
	res := []int{-1, -1}
	tried := map[[2]int]bool{}
	w.Reg.candidatePairs("A", "B", func(a, b *Secret) bool {
		key := [2]int{a.ID, b.ID}
		if a.ID > b.ID {
			key = [2]int{b.ID, a.ID}
		}
		if tried[key] {
			return false
		}
		tried[key] = true
		if w.Reg.AKE(a, b).SSID == ssid {
			res = []int{key[0], key[1]}
			if w.ssidIdx == nil {
				w.ssidIdx = map[[8]byte][2]int{}
			}
			w.ssidIdx[ssid] = key
			return true
		}
		return false
	})
	return res
}

// ---------------------------------------------------------------------------
// API calls

type usageRec struct {
	usage uint32
	data  []byte
}

type callResult struct {
	panicked string
	ms       float64
	alloc    uint64
}

func (w *World) call(p *Party, f func()) (res callResult) {
	p.evs = nil
	p.Rand.Fresh = nil
	var m0, m1 runtime.MemStats
	runtime.ReadMemStats(&m0)
	t0 := time.Now()
	// time passes only through Tick: the wall-clock time a long run takes (tens of thousands of
	// attacker deliveries, object-graph scans) must not age the conversation's timestamps
	if !p.lastCall.IsZero() {
		otr3.VerifAgeClocks(p.Conv, -t0.Sub(p.lastCall))
	}
	p.lastCall = t0
	func() {
		defer func() {
			if r := recover(); r != nil {
				res.panicked = fmt.Sprintf("%v\n%s", r, debug.Stack())
			}
		}()
		f()
	}()
	res.ms = float64(time.Since(t0).Microseconds()) / 1000
	runtime.ReadMemStats(&m1)
	res.alloc = m1.TotalAlloc - m0.TotalAlloc
	if res.ms > w.MaxCallMs {
		w.MaxCallMs = res.ms
	}
	if res.panicked != "" {
		w.Panics = append(w.Panics, res.panicked)
	}
	return
}

// groupOutputs splits a list of ValidMessages into wire messages (a run of
// fragments 1..n is one message).
func groupOutputs(out []otr3.ValidMessage) [][][]byte {
	var groups [][][]byte
	i := 0
	for i < len(out) {
		m := []byte(out[i])
		if f, err := ref.ParseFragment(m); err == nil && f.K == 1 && f.N >= 1 && i+f.N <= len(out) {
			g := [][]byte{}
			ok := true
			for j := 0; j < f.N; j++ {
				fj, err := ref.ParseFragment(out[i+j])
				if err != nil || fj.K != j+1 || fj.N != f.N {
					ok = false
					break
				}
				g = append(g, append([]byte{}, out[i+j]...))
			}
			if ok {
				groups = append(groups, g)
				i += f.N
				continue
			}
		}
		groups = append(groups, [][]byte{append([]byte{}, m...)})
		i++
	}
	return groups
}

func (w *World) emit(p *Party, out []otr3.ValidMessage) []M {
	res := []M{}
	if p.Tag == 0 {
		p.Tag = otr3.VerifProject(p.Conv).OurTag
	}
	for _, g := range groupOutputs(out) {
		to := p.Peer
		if len(p.Cc) > 0 {
			// the message is resolved with the secrets of the client instance it is addressed to
			var rt uint32
			if full, err := ref.Reassemble(g); err == nil {
				if raw, err := ref.Dearmor(full); err == nil {
					if h, err := ref.ParseHeader(raw); err == nil && h.Version == 3 {
						rt = h.RT
					}
				}
			}
			for _, c := range p.Cc {
				if q := w.P[c]; q != nil && rt != 0 && q.Tag == rt {
					to = c
				}
			}
		}
		wm := &WireMsg{ID: len(w.Wire) + 1, From: p.Name, To: to, Raw: g}
		w.lastKeys = nil
		wm.Abs = w.Abs(g, p.Name, to)
		wm.Keys = w.lastKeys
		if hr, ok := wm.Abs["hashraw"].([]byte); ok {
			wm.HashRaw = hr
			delete(wm.Abs, "hashraw")
		}
		wm.Abs["id"] = wm.ID
		w.Wire = append(w.Wire, wm)
		if q := w.P[p.Peer]; q != nil {
			q.Queue = append(q.Queue, wm)
		}
		for _, c := range p.Cc {
			if q := w.P[c]; q != nil {
				q.Queue = append(q.Queue, wm)
			}
		}
		res = append(res, wm.Abs)
	}
	return res
}

func errClass(err error) string {
	if err == nil {
		return ""
	}
	return err.Error()
}

func (w *World) record(ev M, p *Party, cr callResult, out []M, err error) M {
	if p.Mute {
		return ev
	}
	ev["p"] = p.Name
	ev["i"] = w.N + 1
	for k, v := range map[string]interface{}{"plain": 0, "hi": false, "np": 0, "text": 0, "prs": false, "atk": "", "raweq": false, "s": 0, "q": false, "run": 0, "xk": true, "big": false} {
		if _, ok := ev[k]; !ok {
			ev[k] = v
		}
	}
	ev["out"] = out
	ev["err"] = err != nil
	ev["errs"] = errClass(err)
	evs := p.evs
	if evs == nil {
		evs = []string{}
	}
	ev["evs"] = evs
	fresh := p.Rand.Fresh
	if fresh == nil {
		fresh = []int{}
	}
	ev["fresh"] = fresh
	ev["panic"] = cr.panicked != ""
	rf := false
	for len(p.Rand.Reads) > p.randSeen {
		if strings.HasSuffix(p.Rand.Reads[p.randSeen].Class, "/fail") || strings.HasSuffix(p.Rand.Reads[p.randSeen].Class, "/short") {
			rf = true
		}
		p.randSeen++
	}
	ev["rf"] = rf || p.NoKeys
	ev["ms"] = int(cr.ms)
	ev["allock"] = int(cr.alloc / 1024)
	ev["inlen"] = w.lastInLen
	w.lastInLen = 0
	if cr.panicked != "" {
		ev["panics"] = cr.panicked
	}
	var st M
	func() {
		defer func() {
			if r := recover(); r != nil {
				st = M{"ms": "broken"}
				fmt.Fprintf(os.Stderr, "projection failed: %v\n%s\n", r, firstN(string(debug.Stack()), 1500))
			}
		}()
		st = w.AbsState(p)
	}()
	ev["st"] = st
	w.N++
	if w.Hook != nil {
		w.Hook(ev, p)
	}
	if w.Trace != nil {
		b, e := json.Marshal(ev)
		if e != nil {
			panic(e)
		}
		w.Trace.Write(b)
		w.Trace.WriteByte('\n')
	}
	return ev
}

func firstN(s string, n int) string {
	if len(s) > n {
		return s[:n]
	}
	return s
}

// Init writes the trace event that describes the parties of a run; it must be
// the first event of every run.
func (w *World) Init() {
	w.InitFam("none")
}

// Done writes the end-of-run event (queue lengths) used by end-of-run properties.
func (w *World) Done() {
	qb := len(w.P["B"].Queue)
	if c := w.P["C"]; c != nil && !c.Mute {
		qb += len(c.Queue)
	}
	ev := M{"ev": "Done", "p": "A", "i": w.N + 1, "qa": len(w.P["A"].Queue), "qb": qb}
	w.N++
	if w.Trace != nil {
		b, _ := json.Marshal(ev)
		w.Trace.Write(b)
		w.Trace.WriteByte('\n')
	}
}

// InitFam is Init with a scenario family name (selects which properties apply).
func (w *World) InitFam(fam string) {
	pol, ver := M{}, M{}
	for n, p := range w.P {
		if p.Mute {
			continue
		}
		pol[n] = p.Pol.M()
		ver[n] = otr3.VerifProject(p.Conv).Version
	}
	ev := M{"ev": "Init", "fam": fam, "pol": pol, "ver": ver, "seed": int(w.Seed % 1000000007)}
	w.N++
	if w.Trace != nil {
		b, _ := json.Marshal(ev)
		w.Trace.Write(b)
		w.Trace.WriteByte('\n')
	}
}

func (w *World) Flush() {
	if w.Trace != nil {
		w.Trace.Flush()
	}
}

// Send passes text id to p.Send.
func (w *World) Send(p *Party, text int) M {
	text += w.TextBase
	b := w.Text(text)
	var out []otr3.ValidMessage
	var err error
	cr := w.call(p, func() { out, err = p.Conv.Send(b) })
	ev := M{"ev": "Send", "text": text}
	return w.record(ev, p, cr, w.emit(p, out), err)
}

// ReceiveAttack delivers attacker-made bytes to p; what p answers goes nowhere.
func (w *World) ReceiveAttack(p *Party, raw [][]byte, name string) M {
	wm := &WireMsg{ID: len(w.Wire) + 1, From: p.Peer, To: p.Name, Raw: raw}
	w.lastKeys = nil
	wm.Abs = w.Abs(raw, p.Peer, p.Name)
	wm.Keys = w.lastKeys
	if hr, ok := wm.Abs["hashraw"].([]byte); ok {
		wm.HashRaw = hr
		delete(wm.Abs, "hashraw")
	}
	wm.Abs["id"] = wm.ID
	wm.Abs["atkname"] = name
	w.Wire = append(w.Wire, wm)
	return w.receive(p, wm, true, name)
}

// Receive hands a wire message (all fragments in order) to p.Receive.
func (w *World) Receive(p *Party, wm *WireMsg) M {
	return w.receive(p, wm, false, "")
}

func (w *World) receive(p *Party, wm *WireMsg, sink bool, atk string) M {
	for _, r := range wm.Raw {
		w.lastInLen += len(r)
	}
	var out []otr3.ValidMessage
	var plain otr3.MessagePlaintext
	var err error
	// "hi": would our stored commit hash beat the one in this message?
	hi := false
	if wm.Abs["t"] == "DHC" {
		s := otr3.VerifProject(p.Conv)
		if s.AKE.Present && len(s.AKE.OurPub) > 0 {
			own := ref.SHA256(ref.PutMPI(nil, new(big.Int).SetBytes(s.AKE.OurPub)))
			if wm.HashRaw != nil {
				hi = bytes.Compare(own, wm.HashRaw) == 1
			}
		}
	}
	plains := [][]byte{}
	w.curKeys = wm.Keys
	cr := w.call(p, func() {
		for i, f := range wm.Raw {
			var pl otr3.MessagePlaintext
			var o []otr3.ValidMessage
			var e error
			pl, o, e = p.Conv.Receive(f)
			out = append(out, o...)
			if e != nil {
				err = e
			}
			if pl != nil {
				plains = append(plains, pl)
				plain = pl
			}
			_ = i
		}
	})
	for _, e := range p.evs {
		if e == "smp:AskForSecret" || e == "smp:AskForAnswer" {
			if sm, ok := wm.Abs["smp"].(M); ok {
				if r, ok := sm["run"].(int); ok {
					p.SMPRun = r
				}
			}
		}
	}
	pid := 0
	prs := false
	if plain != nil {
		pid, prs = w.Reg.TextID(plain)
		if len(plain) == 0 {
			pid = -4 // non-nil but empty
		}
	}
	raweq := len(wm.Raw) == 1 && plain != nil && bytes.Equal(plain, wm.Raw[0])
	ev := M{"ev": "Recv", "m": wm.Abs, "plain": pid, "prs": prs, "np": len(plains), "hi": hi, "atk": atk, "raweq": raweq}
	if w.KeepRaw {
		ev["plainraw"] = hex.EncodeToString(plain)
	}
	if sink {
		peer := w.P[p.Peer]
		n := len(peer.Queue)
		outs := w.emit(p, out)
		peer.Queue = peer.Queue[:n]
		return w.record(ev, p, cr, outs, err)
	}
	return w.record(ev, p, cr, w.emit(p, out), err)
}

// InjectRaw puts a raw message from p's peer (or an outsider) into p's queue.
func (w *World) InjectRaw(p *Party, raw ...[]byte) *WireMsg {
	wm := &WireMsg{ID: len(w.Wire) + 1, From: p.Peer, To: p.Name, Raw: raw}
	w.lastKeys = nil
	wm.Abs = w.Abs(raw, p.Peer, p.Name)
	wm.Keys = w.lastKeys
	if hr, ok := wm.Abs["hashraw"].([]byte); ok {
		wm.HashRaw = hr
		delete(wm.Abs, "hashraw")
	}
	wm.Abs["id"] = wm.ID
	w.Wire = append(w.Wire, wm)
	p.Queue = append(p.Queue, wm)
	return wm
}

// DeliverAttack delivers the head of p's queue, marked as attacker-made; replies go to the peer.
func (w *World) DeliverAttack(p *Party, name string) M {
	if len(p.Queue) == 0 {
		return nil
	}
	wm := p.Queue[0]
	p.Queue = p.Queue[1:]
	return w.receive(p, wm, false, name)
}

// Deliver delivers the head of p's queue (FIFO). Returns nil if empty.
func (w *World) Deliver(p *Party) M {
	if len(p.Queue) == 0 {
		return nil
	}
	wm := p.Queue[0]
	p.Queue = p.Queue[1:]
	return w.Receive(p, wm)
}

// Query makes p's user start OTR by sending the query message.
func (w *World) Query(p *Party) M {
	var q otr3.ValidMessage
	cr := w.call(p, func() { q = p.Conv.QueryMessage() })
	return w.record(M{"ev": "Query"}, p, cr, w.emit(p, []otr3.ValidMessage{q}), nil)
}

func (w *World) End(p *Party) M {
	var out []otr3.ValidMessage
	var err error
	cr := w.call(p, func() { out, err = p.Conv.End() })
	return w.record(M{"ev": "End"}, p, cr, w.emit(p, out), err)
}

// Tick lets more than a minute pass for p.
// Tick lets more than a minute pass (the library's windows are 60 s; the margin absorbs the in-call
// offset the clock compensation can leave on a timestamp when a single call is slow, e.g. under the
// race detector with many goroutines).
func (w *World) Tick(p *Party) M {
	cr := w.call(p, func() { otr3.VerifAgeClocks(p.Conv, 90*time.Second) })
	return w.record(M{"ev": "Tick"}, p, cr, []M{}, nil)
}

func (w *World) smpTerm(p *Party, initiator bool, sid int) []interface{} {
	s := otr3.VerifProject(p.Conv)
	sess := w.resolveSSID(s.SSID)
	peer := w.Reg.FPName(s.TheirKeyFP)
	if initiator {
		return []interface{}{p.KeyName, peer, sess[0], sess[1], sid}
	}
	return []interface{}{peer, p.KeyName, sess[0], sess[1], sid}
}

// Reinstall replaces p's conversation by a fresh one that signs with the long-term key of keyName: the user
// lost the key and made a new one (same client: the instance tag stays). Policies stay; the peer keeps its
// conversation object.
func (w *World) Reinstall(p *Party, keyName string) {
	old := otr3.VerifProject(p.Conv)
	c := &otr3.Conversation{}
	c.Rand = p.Rand
	p.Priv, _ = DSAKey(keyName)
	p.KeyName = keyName
	c.SetOurKeys([]otr3.PrivateKey{p.Priv})
	c.Policies = p.Conv.Policies
	c.SetSecurityEventHandler(secH{p})
	c.SetMessageEventHandler(msgH{p})
	c.SetSMPEventHandler(smpH{p})
	c.SetReceivedKeyHandler(keyH{p})
	c.SetErrorMessageHandler(errH{p})
	otr3.VerifSetInstanceTags(c, old.OurTag, 0)
	p.Conv = c
	p.lastCall = time.Time{}
	p.watch = nil
	p.SMPTerm, p.SMPRun = nil, 0
	ev := M{"ev": "Reset", "p": p.Name, "i": w.N + 1, "pol": p.Pol.M(), "key": keyName}
	w.N++
	if w.Trace != nil {
		b, _ := json.Marshal(ev)
		w.Trace.Write(b)
		w.Trace.WriteByte('\n')
	}
}

// callerBuf returns the application's own buffer for a value it passes to the library again and again (the
// user's SMP secret kept in a password field, say): the same slice every time, as an application would do.
// What the library does to it stays done.
func (w *World) callerBuf(p *Party, kind string, id int, b []byte) []byte {
	if w.bufs == nil {
		w.bufs = map[string][]byte{}
	}
	k := fmt.Sprintf("%s/%s/%d", p.Name, kind, id)
	if old, ok := w.bufs[k]; ok {
		return old
	}
	w.bufs[k] = append([]byte{}, b...)
	return w.bufs[k]
}

func (w *World) SMPStart(p *Party, secret []byte, question string, sid int) M {
	var out []otr3.ValidMessage
	var err error
	run := 0
	// a question that does not fit into a TLV is refused: nothing starts
	big := len(question) > 65000
	if p.Conv.IsEncrypted() && !big {
		p.SMPTerm = w.smpTerm(p, true, sid)
		w.smpRuns++
		run = w.smpRuns
		p.SMPRun = run
	}
	secret = w.callerBuf(p, "s", sid, secret)
	cr := w.call(p, func() { out, err = p.Conv.StartAuthenticate(question, secret) })
	return w.record(M{"ev": "SMPStart", "s": sid, "q": question != "", "run": run, "big": big}, p, cr, w.emit(p, out), err)
}

func (w *World) SMPAnswer(p *Party, secret []byte, sid int) M {
	var out []otr3.ValidMessage
	var err error
	if p.Conv.IsEncrypted() {
		p.SMPTerm = w.smpTerm(p, false, sid)
	}
	secret = w.callerBuf(p, "s", sid, secret)
	cr := w.call(p, func() { out, err = p.Conv.ProvideAuthenticationSecret(secret) })
	return w.record(M{"ev": "SMPAnswer", "s": sid}, p, cr, w.emit(p, out), err)
}

func (w *World) SMPAbort(p *Party) M {
	var out []otr3.ValidMessage
	var err error
	cr := w.call(p, func() { out, err = p.Conv.AbortAuthentication() })
	return w.record(M{"ev": "SMPAbort"}, p, cr, w.emit(p, out), err)
}

func (w *World) ExtraKey(p *Party, usage uint32, data []byte) (M, []byte) {
	var out []otr3.ValidMessage
	var key []byte
	var err error
	cr := w.call(p, func() { key, out, err = p.Conv.UseExtraSymmetricKey(usage, data) })
	w.expectUsage = &usageRec{usage, append([]byte{}, data...)}
	nw := len(w.Wire)
	outs := w.emit(p, out)
	// the key returned to the caller must be the extra key of the pair the message went out under
	xk := true
	if err == nil && len(w.Wire) > nw {
		if k := w.Wire[len(w.Wire)-1].Keys; k == nil || !bytes.Equal(k.Extra, key) {
			xk = false
		}
	}
	return w.record(M{"ev": "ExtraKey", "xk": xk}, p, cr, outs, err), key
}

func (w *World) SetFragSize(p *Party, z int) {
	p.Conv.SetFragmentSize(uint16(z))
}

// Handshake runs a query-initiated AKE to completion over FIFO queues
// (initiator sends the query). Returns false if it did not complete.
func (w *World) Handshake(initiator string) bool {
	a := w.P[initiator]
	b := w.P[a.Peer]
	w.Query(a)
	for i := 0; i < 20 && (len(a.Queue) > 0 || len(b.Queue) > 0); i++ {
		if len(b.Queue) > 0 {
			w.Deliver(b)
		}
		if len(a.Queue) > 0 {
			w.Deliver(a)
		}
	}
	return a.Conv.IsEncrypted() && b.Conv.IsEncrypted()
}

// scan walks everything reachable from p's conversation and reports (a) which of p's DH exponents
// are found (in byte or big.Int form), (b) which user texts are found, (c) which exponents that
// are not found any more still sit un-zeroed in a buffer the randomness was written into.
func (w *World) scan(p *Party, st M) (held, kept, dirty []int) {
	held, kept, dirty = []int{}, []int{}, []int{}
	var blobs [][]byte
	var paths []string
	otr3.VerifWalk(p.Conv, func(path string, b []byte) {
		if len(b) >= 4 && !strings.Contains(path, ".ourKeys") && !strings.Contains(path, ".ourCurrentKey") {
			blobs = append(blobs, b)
			paths = append(paths, path)
		}
	})
	contains := func(needle []byte) bool {
		if len(needle) < 4 {
			return false
		}
		for i, b := range blobs {
			if bytes.Contains(b, needle) {
				if os.Getenv("VERIF_SCANDEBUG") != "" {
					fmt.Fprintf(os.Stderr, "scan: %s holds %x...\n", paths[i], needle[:4])
				}
				return true
			}
		}
		return false
	}
	secs := w.Reg.recent(p.Name, 16)
	for _, s := range secs {
		found := contains(s.X) || contains(bytes.TrimLeft(s.X, "\x00"))
		if found {
			held = append(held, s.ID)
			continue
		}
		for _, a := range s.Alias {
			if len(a) == 40 && bytes.Equal(a, s.X) {
				dirty = append(dirty, s.ID)
				break
			}
		}
	}
	// every piece of memory (byte buffer, big.Int word array) in which one of p's exponents is seen is
	// remembered; once the exponent is not reachable any more, none of them may still hold it
	if p.watch == nil {
		p.watch = map[int][]watched{}
	}
	rev := func(b []byte) []byte {
		o := make([]byte, len(b))
		for i := range b {
			o[len(b)-1-i] = b[i]
		}
		return o
	}
	holds := func(wt watched, s *Secret) bool {
		view := wt.mem
		if wt.words {
			view = rev(wt.mem)
		}
		x := bytes.TrimLeft(s.X, "\x00")
		return len(x) >= 8 && bytes.Contains(view, x)
	}
	otr3.VerifWalkAlias(p.Conv, func(path string, b []byte) {
		if len(b) < 8 || strings.Contains(path, ".ourKeys") || strings.Contains(path, ".ourCurrentKey") {
			return
		}
		wt := watched{mem: b, words: strings.HasSuffix(path, "#words"), path: path}
		for _, s := range secs {
			if !holds(wt, s) {
				continue
			}
			known := false
			for _, o := range p.watch[s.ID] {
				if &o.mem[0] == &b[0] {
					known = true
				}
			}
			if !known {
				p.watch[s.ID] = append(p.watch[s.ID], wt)
			}
		}
	})
	heldSet := map[int]bool{}
	for _, id := range held {
		heldSet[id] = true
	}
	for _, s := range secs {
		if heldSet[s.ID] {
			continue
		}
		already := false
		for _, d := range dirty {
			if d == s.ID {
				already = true
			}
		}
		for _, wt := range p.watch[s.ID] {
			if !already && holds(wt, s) {
				if os.Getenv("VERIF_SCANDEBUG") != "" {
					fmt.Fprintf(os.Stderr, "scan: exponent %d dropped but still in the memory once at %s\n", s.ID, wt.path)
				}
				dirty = append(dirty, s.ID)
				already = true
			}
		}
	}
	sort.Ints(held)
	sort.Ints(dirty)
	n := 0
	for id, t := range w.Reg.Texts {
		if len(t) >= 6 && contains(t) {
			kept = append(kept, id)
		}
		n++
	}
	sort.Ints(kept)
	// the random exponents of SMP runs (as bytes or as the integer they were turned into)
	nsmp := 0
	for _, v := range p.Rand.SMPVals {
		if contains(v) || contains(bytes.TrimLeft(v, "\x00")) {
			nsmp++
		}
	}
	st["smpheld"] = nsmp
	return
}
