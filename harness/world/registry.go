// Package world drives real otr3 conversations, names every secret they draw,
// decodes every wire message with the independent reference (package ref) and
// records one trace event per API call.
package world

import (
	"bytes"
	"crypto/sha256"
	"encoding/binary"
	"fmt"
	"io"
	"math/big"
	"runtime"
	"strings"

	"verif/harness/ref"
)

// Secret is one DH exponent drawn by a party (or built by the attacker).
type Secret struct {
	ID    int
	Owner string
	X     []byte
	Pub   *big.Int
	R     []byte   // the 16-byte r drawn with it (DH-Commit only)
	Alias [][]byte // the buffers the randomness was written into
}

// Registry knows every secret, text and long-term key of a run.
type Registry struct {
	Secrets []*Secret
	byID    map[int]*Secret
	byPub   map[string]*Secret
	byX     map[string]*Secret
	shared  map[[2]int]*big.Int
	sess    map[[2]int]*ref.SessionKeys // keyed by ordered (from, to): keys from from's perspective
	ake     map[[2]int]*ref.AKEKeys
	Texts   map[int][]byte
	textID  map[string]int
	DSA     map[string]*ref.DSAPub
	fpName  map[string]string
	count   map[string]int
	macIdx  map[string][2]int // 20-byte send MAC key -> ordered pair
	unknown map[string]int
}

func NewRegistry() *Registry {
	return &Registry{
		byID: map[int]*Secret{}, byPub: map[string]*Secret{}, byX: map[string]*Secret{},
		shared: map[[2]int]*big.Int{}, sess: map[[2]int]*ref.SessionKeys{}, ake: map[[2]int]*ref.AKEKeys{},
		Texts: map[int][]byte{}, textID: map[string]int{}, DSA: map[string]*ref.DSAPub{}, fpName: map[string]string{},
		count: map[string]int{}, macIdx: map[string][2]int{},
	}
}

var partyBase = map[string]int{"A": 100, "B": 200, "E": 300, "C": 400, "D": 500}

// AddSecret registers a new DH exponent for owner and returns it.
func (r *Registry) AddSecret(owner string, x []byte, alias []byte) *Secret {
	r.count[owner]++
	base := partyBase[owner]
	if base == 0 {
		base = 900
	}
	// ids are base*k + n; keep them unique for long runs
	id := base*1000 + r.count[owner]
	if r.count[owner] < 100 {
		id = base + r.count[owner]
	}
	s := &Secret{ID: id, Owner: owner, X: append([]byte{}, x...), Pub: ref.Pub(x)}
	if alias != nil {
		s.Alias = append(s.Alias, alias)
	}
	r.Secrets = append(r.Secrets, s)
	r.byID[id] = s
	r.byPub[string(s.Pub.Bytes())] = s
	r.byX[string(s.X)] = s
	return s
}

// SetPub makes the secret known under another public value (a value that is congruent to g^x but not
// reduced, say): what its owner chooses to announce.
func (r *Registry) SetPub(s *Secret, pub *big.Int) {
	delete(r.byPub, string(s.Pub.Bytes()))
	s.Pub = pub
	r.byPub[string(pub.Bytes())] = s
}

func (r *Registry) LastSecretOf(owner string) *Secret {
	for i := len(r.Secrets) - 1; i >= 0; i-- {
		if r.Secrets[i].Owner == owner {
			return r.Secrets[i]
		}
	}
	return nil
}

func (r *Registry) Secret(id int) *Secret { return r.byID[id] }

// PubID names a public DH value: id of the secret, 0 none, -1 unknown in range, -2 out of range.
func (r *Registry) PubID(v *big.Int) int {
	if v == nil {
		return 0
	}
	if v.Sign() == 0 {
		return -2
	}
	return r.PubIDBytes(v.Bytes())
}

func (r *Registry) PubIDBytes(b []byte) int {
	if len(b) == 0 {
		return 0
	}
	if s, ok := r.byPub[string(b)]; ok {
		return s.ID
	}
	if ref.InRange(new(big.Int).SetBytes(b)) {
		// a value in range whose exponent nobody in this run knows: distinct values get
		// distinct ids (-1000, -1001, ...) so that "the same value again" is decidable
		if r.unknown == nil {
			r.unknown = map[string]int{}
		}
		if id, ok := r.unknown[string(b)]; ok {
			return id
		}
		id := -1000 - len(r.unknown)
		r.unknown[string(b)] = id
		return id
	}
	return -2
}

// PrivID names a private exponent: 0 none/empty, -1 unknown, -3 all zero.
func (r *Registry) PrivID(b []byte) int {
	if len(b) == 0 {
		return 0
	}
	if s, ok := r.byX[string(b)]; ok {
		return s.ID
	}
	if len(bytes.Trim(b, "\x00")) == 0 {
		return -3
	}
	return -1
}

func (r *Registry) Shared(a, b *Secret) *big.Int {
	k := [2]int{a.ID, b.ID}
	if a.ID > b.ID {
		k = [2]int{b.ID, a.ID}
	}
	if v, ok := r.shared[k]; ok {
		return v
	}
	v := ref.Shared(b.Pub, a.X)
	r.shared[k] = v
	return v
}

// Sess returns the data-message keys of the pair from `from`'s perspective and
// indexes its sending MAC key.
func (r *Registry) Sess(from, to *Secret) *ref.SessionKeys {
	k := [2]int{from.ID, to.ID}
	if v, ok := r.sess[k]; ok {
		return v
	}
	v := ref.DeriveSessionKeys(from.Pub, to.Pub, r.Shared(from, to))
	r.sess[k] = v
	r.macIdx[string(v.SendMAC)] = k
	return v
}

func (r *Registry) AKE(a, b *Secret) *ref.AKEKeys {
	k := [2]int{a.ID, b.ID}
	if a.ID > b.ID {
		k = [2]int{b.ID, a.ID}
	}
	if v, ok := r.ake[k]; ok {
		return v
	}
	v := ref.DeriveAKEKeys(r.Shared(a, b))
	r.ake[k] = v
	return v
}

// recent returns the last n secrets of an owner, newest first.
func (r *Registry) recent(owner string, n int) []*Secret {
	var out []*Secret
	for i := len(r.Secrets) - 1; i >= 0 && len(out) < n; i-- {
		if owner == "" || r.Secrets[i].Owner == owner {
			out = append(out, r.Secrets[i])
		}
	}
	return out
}

// candidatePairs yields ordered pairs (from, to) to try, most likely first.
func (r *Registry) candidatePairs(from, to string, visit func(a, b *Secret) bool) {
	seen := map[[2]int]bool{}
	try := func(a, b *Secret) bool {
		if a.ID == b.ID || seen[[2]int{a.ID, b.ID}] {
			return false
		}
		seen[[2]int{a.ID, b.ID}] = true
		return visit(a, b)
	}
	if from != "" && to != "" {
		for _, a := range r.recent(from, 4) {
			for _, b := range r.recent(to, 4) {
				if try(a, b) {
					return
				}
			}
		}
	}
	all := r.recent("", 24)
	for _, a := range all {
		for _, b := range all {
			if try(a, b) {
				return
			}
		}
	}
}

// AddText registers a user text.
func (r *Registry) AddText(id int, b []byte) {
	r.Texts[id] = b
	r.textID[string(b)] = id
}

// TextID resolves text bytes: 0 empty, -1 unknown; resent reports the "[resent] " prefix.
func (r *Registry) TextID(b []byte) (id int, resent bool) {
	if len(b) == 0 {
		return 0, false
	}
	if v, ok := r.textID[string(b)]; ok {
		return v, false
	}
	if bytes.HasPrefix(b, []byte("[resent] ")) {
		if v, ok := r.textID[string(b[9:])]; ok {
			return v, true
		}
	}
	return -1, false
}

func (r *Registry) AddDSA(name string, k *ref.DSAPub) {
	r.DSA[name] = k
	r.fpName[string(k.Fingerprint())] = name
}

func (r *Registry) FPName(fp []byte) string {
	if len(fp) == 0 {
		return "none"
	}
	if n, ok := r.fpName[string(fp)]; ok {
		return n
	}
	return "?"
}

// ---------------------------------------------------------------------------

// RandRead is one journalled read of a party's randomness source.
type RandRead struct {
	N      int
	Len    int
	Class  string
	Secret int
}

// JRand is a deterministic, journalling randomness source. Output depends on
// (seed, owner, class of the caller, per-class counter), so that reads whose
// number is not deterministic (crypto/dsa) do not shift the DH secrets.
type JRand struct {
	Owner   string
	Seed    uint64
	Reg     *Registry
	Reads   []RandRead
	counter map[string]int
	total   int

	classFailed bool
	// FailAt >= 0 makes the read with that running number fail (short if Short).
	FailAt int
	Short  bool
	// FailClass/FailClassAt: instead, the FailClassAt-th read made by callers of that class fails
	FailClass   string
	FailClassAt int
	// Fresh collects the ids of DH secrets drawn since it was last cleared.
	Fresh []int
	// TagOverride, if non-empty, supplies successive outputs for instance tag reads.
	TagOverride [][]byte
	// SMPVals are the values handed out to the SMP code (its secret exponents), in order
	SMPVals [][]byte
	// ShortDH makes every DH exponent one whose public value has a leading zero byte (about one in
	// 256 honest values): integers travel in minimal form and must still be read back as the same value
	ShortDH bool
}

func NewJRand(owner string, seed uint64, reg *Registry) *JRand {
	return &JRand{Owner: owner, Seed: seed, Reg: reg, counter: map[string]int{}, FailAt: -1}
}

func classifyCaller() string {
	pcs := make([]uintptr, 24)
	n := runtime.Callers(3, pcs)
	frames := runtime.CallersFrames(pcs[:n])
	for {
		f, more := frames.Next()
		fn := f.Function
		switch {
		case strings.Contains(fn, "crypto/dsa"):
			return "dsa"
		case strings.HasSuffix(fn, ".dhCommitMessage"):
			return "commit"
		case strings.HasSuffix(fn, ".dhKeyMessage"):
			return "dhkey"
		case strings.HasSuffix(fn, ".generateNewDHKeyPair"):
			return "ratchet"
		case strings.HasSuffix(fn, ".generateInstanceTag"):
			return "tag"
		case strings.Contains(fn, "generateSMP"):
			return "smp"
		}
		if !more {
			break
		}
	}
	return "other"
}

func (r *JRand) fill(class string, k int, b []byte) {
	var ctr uint32
	off := 0
	for off < len(b) {
		h := sha256.New()
		var hdr [16]byte
		binary.BigEndian.PutUint64(hdr[:8], r.Seed)
		binary.BigEndian.PutUint32(hdr[8:12], uint32(k))
		binary.BigEndian.PutUint32(hdr[12:16], ctr)
		h.Write(hdr[:])
		h.Write([]byte(r.Owner + "/" + class))
		off += copy(b[off:], h.Sum(nil))
		ctr++
	}
}

func (r *JRand) Read(b []byte) (int, error) {
	class := classifyCaller()
	n := r.total
	r.total++
	if r.FailAt == n || (r.FailClass != "" && r.FailClass == class && r.counter[class] == r.FailClassAt && !r.classFailed) {
		r.classFailed = r.FailClass != "" && r.FailClass == class
		r.counter[class]++
		if r.Short && len(b) > 1 {
			r.fill(class+"/short", n, b[:len(b)/2])
			r.Reads = append(r.Reads, RandRead{N: n, Len: len(b) / 2, Class: class + "/short"})
			return len(b) / 2, io.ErrUnexpectedEOF
		}
		r.Reads = append(r.Reads, RandRead{N: n, Len: 0, Class: class + "/fail"})
		return 0, fmt.Errorf("verif: injected randomness failure at read %d", n)
	}
	k := r.counter[class]
	r.counter[class]++
	if class == "tag" && len(r.TagOverride) > 0 {
		copy(b, r.TagOverride[0])
		r.TagOverride = r.TagOverride[1:]
	} else {
		r.fill(class, k, b)
	}
	if r.ShortDH && len(b) == 40 && (class == "commit" || class == "dhkey" || class == "ratchet") {
		for i := 0; i < 100000; i++ {
			if ref.Pub(b).BitLen() <= ref.P.BitLen()-8 {
				break
			}
			r.fill(fmt.Sprintf("%s/short-dh-%d", class, i), k, b)
		}
	}
	rr := RandRead{N: n, Len: len(b), Class: class}
	if class == "smp" && len(b) >= 16 {
		r.SMPVals = append(r.SMPVals, append([]byte{}, b...))
		if len(r.SMPVals) > 64 {
			r.SMPVals = r.SMPVals[len(r.SMPVals)-64:]
		}
	}
	switch {
	case len(b) == 40 && (class == "commit" || class == "dhkey" || class == "ratchet"):
		s := r.Reg.AddSecret(r.Owner, b, b)
		rr.Secret = s.ID
		r.Fresh = append(r.Fresh, s.ID)
	case len(b) == 16 && class == "commit":
		if s := r.Reg.LastSecretOf(r.Owner); s != nil {
			s.R = append([]byte{}, b...)
			s.Alias = append(s.Alias, b)
			rr.Secret = s.ID
		}
	}
	r.Reads = append(r.Reads, rr)
	return len(b), nil
}
