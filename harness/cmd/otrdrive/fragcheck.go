package main

import (
	"bufio"
	"bytes"
	"encoding/json"
	"flag"
	"fmt"
	"os"
	"strings"

	otr3 "github.com/coyim/otr3"

	"verif/harness/ref"
	"verif/harness/world"
)

type fragStep struct {
	T string `json:"t"`
	M string `json:"m"`
	K int    `json:"k"`
}

type fragSched struct {
	Steps     []fragStep `json:"steps"`
	K         int        `json:"k"`
	N         int        `json:"n"`
	Processed []string   `json:"processed"`
	Bound     int        `json:"bound"`
	Bound0    int        `json:"bound0"`
}

// cmdFragCheck: (a) replays Frag.tla's arrival schedules on a real Conversation and compares the
// reassembly context and what was processed with the specification's state; (b) sweeps the real
// fragmenter over fragment sizes and message lengths against the specification's piece arithmetic.
func cmdFragCheck(args []string) int {
	fs := flag.NewFlagSet("fragcheck", flag.ExitOnError)
	sched := fs.String("sched", "", "FRAGSCHED lines (JSON per line)")
	step := fs.Int("sizestep", 7, "sender sweep: every n-th fragment size (1 = all 65536)")
	part := fs.Int("part", 0, "sender sweep: this process handles sizes with S % parts == part")
	parts := fs.Int("parts", 1, "sender sweep: number of processes")
	fs.Parse(args)
	viol := 0
	report := func(kind, detail string) {
		viol++
		if viol <= 10 {
			fmt.Printf("FRAGVIOLATION %s %s\n", kind, detail)
		}
	}
	// ---- receiver replay
	replayed := 0
	if *sched != "" {
		f, err := os.Open(*sched)
		if err != nil {
			fmt.Fprintln(os.Stderr, err)
			return 2
		}
		sc := bufio.NewScanner(f)
		sc.Buffer(make([]byte, 1<<20), 1<<24)
		for sc.Scan() {
			var fsch fragSched
			if err := json.Unmarshal(sc.Bytes(), &fsch); err != nil {
				fmt.Fprintln(os.Stderr, "bad FRAGSCHED:", err)
				return 2
			}
			for _, version := range []int{2, 3} {
				if msg := replayFrag(&fsch, version); msg != "" {
					b, _ := json.Marshal(fsch.Steps)
					report("receiver", fmt.Sprintf("v%d %s steps=%s", version, msg, b))
				}
				replayed++
			}
		}
		f.Close()
	}
	// ---- sender sweep
	evaluated := 0
	for _, version := range []int{2, 3} {
		w := world.New(7, nil)
		p := w.AddParty("A", "B", world.PolicyFromBits(3), version)
		otr3.VerifSetInstanceTags(p.Conv, 0x1234abcd, 0x0badcafe)
		H := 17
		if version == 3 {
			H = 35
		}
		for _, L := range []int{1, H + 1, 1000, 65535, 65536, 70000, 200000} {
			data := make([]byte, L)
			for i := range data {
				data[i] = "ABCDEFGHIJKLMNOPQRSTUVWXYZabcdefghijklmnopqrstuvwxyz0123456789+/"[(i*31+i/64)%64]
			}
			for S := 0; S < 65536; S++ {
				if S%*parts != *part {
					continue
				}
				if *step > 1 && S%*step != 0 && S > H+70 && S < 65500 && S != L && S != L-1 && S != L+1 {
					continue
				}
				pl := S - H - 1
				whole := L <= S || S == 0 || pl <= 0
				n := 1
				if !whole {
					n = L/pl + 1
				}
				if n > 65535 {
					continue // the wire format cannot number more pieces
				}
				frags := otr3.VerifFragment(p.Conv, data, uint16(S))
				evaluated++
				if len(frags) != n {
					report("sender", fmt.Sprintf("v%d L=%d S=%d: %d pieces, specification says %d", version, L, S, len(frags), n))
					continue
				}
				if whole {
					if !bytes.Equal(frags[0], data) {
						report("sender", fmt.Sprintf("v%d L=%d S=%d: unfragmented output differs from the message", version, L, S))
					}
					continue
				}
				raws := make([][]byte, len(frags))
				for i, fr := range frags {
					raws[i] = fr
					if len(fr) > S {
						report("sender", fmt.Sprintf("v%d L=%d S=%d: piece %d is %d bytes long", version, L, S, i+1, len(fr)))
						break
					}
					end := (i + 1) * pl
					if end > L {
						end = L
					}
					if len(fr) != H+(end-i*pl)+1 {
						report("sender", fmt.Sprintf("v%d L=%d S=%d: piece %d has length %d, specification says %d", version, L, S, i+1, len(fr), H+(end-i*pl)+1))
						break
					}
				}
				re, err := ref.Reassemble(raws)
				if err != nil || !bytes.Equal(re, data) {
					report("sender", fmt.Sprintf("v%d L=%d S=%d: in-order reassembly does not give the message back (%v)", version, L, S, err))
				}
			}
		}
	}
	// ---- sender -> receiver, small lengths and sizes exhaustively (all remainders, empty last piece)
	e2e := 0
	for _, version := range []int{2, 3} {
		H := 17
		if version == 3 {
			H = 35
		}
		w := world.New(9, nil)
		a := w.AddParty("A", "B", world.PolicyFromBits(3), version)
		otr3.VerifSetInstanceTags(a.Conv, 0x00aaaaaa, 0x00bbbbbb)
		for L := 1; L <= 60; L++ {
			data := []byte(strings.Repeat("payload-0123456789-abcdefghijklmnopqrstuvwxyz-ABCDEFGHIJKLMNOPQRSTUVWXYZ", 1)[:L])
			for S := H + 2; S <= H+24; S++ {
				frags := otr3.VerifFragment(a.Conv, data, uint16(S))
				wb := world.New(9, nil)
				b := wb.AddParty("B", "A", world.PolicyFromBits(3), version)
				otr3.VerifSetInstanceTags(b.Conv, 0x00bbbbbb, 0)
				got := 0
				for i, fr := range frags {
					plain, _, _ := b.Conv.Receive(fr)
					if plain != nil {
						got++
						if i != len(frags)-1 || !bytes.Equal(plain, data) {
							report("end-to-end", fmt.Sprintf("v%d L=%d S=%d: piece %d/%d returned %q", version, L, S, i+1, len(frags), plain))
						}
					}
				}
				if got != 1 {
					report("end-to-end", fmt.Sprintf("v%d L=%d S=%d: the reassembled message was processed %d times", version, L, S, got))
				}
				e2e++
			}
		}
	}
	// ---- sender -> receiver, long messages (more than 65535 bytes once encoded) and instance tags with the
	// top bit set; the receiver must hand back exactly the text, once
	if *part == 0 {
		for _, version := range []int{2, 3} {
			for ti, tags := range [][2]uint32{{0x00aaaaaa, 0x00bbbbbb}, {0x9a5f0301, 0xffffffff}, {0x80000000, 0x00000100}} {
				for _, L := range []int{3000, 65535, 65536, 70000, 200000} {
					for _, S := range []int{500, 4000, 65535} {
						if ti > 0 && (L > 3000 || S != 500) {
							continue
						}
						data := make([]byte, L)
						for i := range data {
							data[i] = "abcdefghijklmnopqrstuvwxyz ABCDEFGHIJKLMNOPQRSTUVWXYZ0123456789"[(i*17+i/61)%63]
						}
						w := world.New(9, nil)
						a := w.AddParty("A", "B", world.PolicyFromBits(3), version)
						otr3.VerifSetInstanceTags(a.Conv, tags[0], tags[1])
						frags := otr3.VerifFragment(a.Conv, data, uint16(S))
						wb := world.New(9, nil)
						b := wb.AddParty("B", "A", world.PolicyFromBits(3), version)
						otr3.VerifSetInstanceTags(b.Conv, tags[1], 0)
						got := 0
						for i, fr := range frags {
							plain, _, err := b.Conv.Receive(fr)
							if plain != nil {
								got++
								if i != len(frags)-1 || !bytes.Equal(plain, data) {
									report("end-to-end", fmt.Sprintf("v%d L=%d S=%d tags=%x: piece %d/%d returned %d bytes", version, L, S, tags, i+1, len(frags), len(plain)))
								}
							}
							if err != nil {
								report("end-to-end", fmt.Sprintf("v%d L=%d S=%d tags=%x: piece %d/%d refused: %v", version, L, S, tags, i+1, len(frags), err))
								break
							}
						}
						if got != 1 {
							report("end-to-end", fmt.Sprintf("v%d L=%d S=%d tags=%x: the reassembled message was processed %d times", version, L, S, tags, got))
						}
						e2e++
					}
				}
			}
		}
	}
	fmt.Printf("FRAGE2E %d\n", e2e)
	fmt.Printf("FRAGCHECK replayed=%d sender_evaluations=%d violations=%d\n", replayed, evaluated, viol)
	return 0
}

// replayFrag executes one arrival schedule; returns "" if the implementation agrees with the model.
func replayFrag(fsch *fragSched, version int) string {
	w := world.New(3, nil)
	p := w.AddParty("B", "A", world.PolicyFromBits(3), version)
	var our, their, foreign, otherOurs uint32 = 0x00abcdef, 0x00fedcba, 0x00777777, 0x00555555
	if version == 2 {
		// the v2 wire format has no instances: schedules with a stranger's fragment do not apply
		for _, s := range fsch.Steps {
			if s.T == "stranger" {
				return ""
			}
		}
	}
	boundTag := map[int]uint32{0: 0, 1: their, 2: foreign}
	otr3.VerifSetInstanceTags(p.Conv, our, boundTag[fsch.Bound0])
	payload := map[string]string{"M": "message-M-111222333", "N": "note-N-4455"}
	total := map[string]int{"M": 3, "N": 2}
	piece := func(m string, k int) string {
		s := payload[m]
		n := total[m]
		sz := (len(s) + n - 1) / n
		lo, hi := (k-1)*sz, k*sz
		if hi > len(s) {
			hi = len(s)
		}
		if lo > len(s) {
			lo = len(s)
		}
		return s[lo:hi]
	}
	rcv := our
	line := func(st uint32, k, n int, pc string) []byte {
		if version == 3 {
			return []byte(fmt.Sprintf("?OTR|%08x|%08x,%05d,%05d,%s,", st, rcv, k, n, pc))
		}
		return []byte(fmt.Sprintf("?OTR,%05d,%05d,%s,", k, n, pc))
	}
	var processed []string
	for _, s := range fsch.Steps {
		var in []byte
		switch s.T {
		case "piece":
			in = line(their, s.K, total[s.M], piece(s.M, s.K))
		case "wrongtotal":
			in = line(their, s.K, total[s.M]+2, piece(s.M, s.K))
		case "zero":
			in = line(their, 0, 3, "x")
		case "nzero":
			in = line(their, 1, 0, "x")
		case "beyond":
			in = line(their, 4, 3, "x")
		case "foreign":
			if version == 2 {
				in = []byte("?OTR,zz,1,x,") // v2 has no instances: an unparsable fragment instead
			} else {
				// the peer's fragment for another of our instances
				rcv = otherOurs
				in = line(their, 2, 3, "x")
				rcv = our
			}
		case "badtag":
			if version == 2 {
				in = []byte("?OTR,zz,1,x,")
			} else if s.K == 2 {
				in = line(0x50, s.K, 3, piece("M", s.K))
			} else {
				rcv = 0x42
				in = line(their, s.K, 3, piece("M", s.K))
				rcv = our
			}
		case "otherformat":
			// the first / the completing piece of M, in the other version's header format
			if version == 3 {
				in = []byte(fmt.Sprintf("?OTR,%05d,%05d,%s,", s.K, 3, piece("M", s.K)))
			} else {
				in = []byte(fmt.Sprintf("?OTR|%08x|%08x,%05d,%05d,%s,", their, our, s.K, 3, piece("M", s.K)))
			}
		case "nested":
			// the payload cannot contain the separator: a fragment prefix that is cut short
			in = line(their, 1, 1, "?OTR|00")
		case "errormsg":
			in = []byte("?OTR Error: something went wrong")
		case "query":
			in = []byte("?OTRv23?")
		case "stranger":
			in = line(foreign, 2, 3, "x")
		case "garbage":
			if version == 3 {
				in = []byte("?OTR|zzzz")
			} else {
				in = []byte("?OTR,1,2")
			}
		case "whole":
			in = []byte("whole-message-W")
		}
		plain, _, _ := p.Conv.Receive(in)
		if plain != nil {
			switch string(plain) {
			case payload["M"]:
				processed = append(processed, "M")
			case payload["N"]:
				processed = append(processed, "N")
			case "whole-message-W":
				processed = append(processed, "W")
			default:
				processed = append(processed, "X:"+string(plain))
			}
		}
	}
	st := otr3.VerifProject(p.Conv)
	if int(st.FragIndex) != fsch.K || int(st.FragLen) != fsch.N {
		return fmt.Sprintf("context (%d,%d), specification says (%d,%d)", st.FragIndex, st.FragLen, fsch.K, fsch.N)
	}
	if version == 3 && st.TheirTag != boundTag[fsch.Bound] {
		return fmt.Sprintf("bound to peer instance %#x, specification says %#x", st.TheirTag, boundTag[fsch.Bound])
	}
	if strings.Join(processed, ",") != strings.Join(fsch.Processed, ",") {
		return fmt.Sprintf("processed %v, specification says %v", processed, fsch.Processed)
	}
	return ""
}
