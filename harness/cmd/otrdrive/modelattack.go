package main

import (
	"bytes"
	"crypto/sha256"
	"encoding/binary"
	"math/big"
	"math/rand"

	otr3 "github.com/coyim/otr3"

	"verif/harness/ref"
	"verif/harness/world"
)

// The attacker steps of OTRModel.tla (AttackerDeliver) made concrete.  The model names each
// choice (Tampered: one field class of a message in flight damaged; Forged: a message E builds
// with its own DH value and long-term key, or claiming the peer's key); this file turns the name
// into bytes.  What the real conversation does with them is judged by the trace specification on
// the abstraction of the bytes actually delivered, so an imprecise concretisation can only make
// the exploration less adversarial, never produce a wrong verdict.

// eState is E's memory within one world: one DH exponent (the model's EId) and the r of its commit.
type eState struct {
	ev   *evil
	x    *world.Secret
	r    []byte
	tag  uint32
	gyOf map[string]*big.Int // victim's DH-Key value seen by E
}

var eStates = map[*world.World]*eState{}

func eOf(w *world.World) *eState {
	if s, ok := eStates[w]; ok {
		return s
	}
	for k := range eStates { // one world at a time: drop the states of finished worlds
		delete(eStates, k)
	}
	ev := newEvil(w, int64(w.Seed)+4242)
	s := &eState{ev: ev, tag: 0x0e0e0e0e, gyOf: map[string]*big.Int{}}
	s.x = ev.secret()
	s.r = ev.bytes(16)
	s.x.R = s.r
	eStates[w] = s
	return s
}

func flipIn(raw []byte, field string, rng *rand.Rand) []byte {
	for _, fr := range fieldRanges(raw) {
		if fr.name == field && fr.hi > fr.lo {
			b := cloneBytes(raw)
			b[fr.lo+rng.Intn(fr.hi-fr.lo)] ^= 1 << uint(rng.Intn(8))
			return b
		}
	}
	return nil
}

// akeKeysOf returns the AKE keys protecting the signature block of wm (from its abstraction).
func akeKeysOf(w *world.World, wm *world.WireMsg) *ref.AKEKeys {
	xs, ok := wm.Abs["xs"].(world.M)
	if !ok {
		return nil
	}
	s1, _ := xs["s1"].(int)
	s2, _ := xs["s2"].(int)
	a, b := w.Reg.Secret(s1), w.Reg.Secret(s2)
	if a == nil || b == nil {
		return nil
	}
	return w.Reg.AKE(a, b)
}

// resealBadSig damages the signature inside an encrypted signature block and re-authenticates
// the block, so that the outer MAC verifies and the DSA signature does not.
func resealBadSig(k *ref.AKEKeys, reveal bool, enc []byte) (nenc, nmac []byte) {
	c, m2 := k.C, k.M2
	if !reveal {
		c, m2 = k.Cp, k.M2p
	}
	x := ref.CTR(c, nil, enc)
	if len(x) < 41 {
		return nil, nil
	}
	x[len(x)-7] ^= 0x10
	nenc = ref.CTR(c, nil, x)
	nmac = ref.HMAC256(m2, ref.PutData(nil, nenc))[:20]
	return
}

func execModelAttack(w *world.World, s Step) bool {
	p := w.P[s.P]
	rng := rand.New(rand.NewSource(int64(w.Seed)*31 + int64(len(w.Wire))))
	name := "model/" + s.F
	if s.I > 0 {
		// Tampered: a copy of the message at position I (1-based) of p's queue
		if s.I > len(p.Queue) {
			return false
		}
		wm := p.Queue[s.I-1]
		full, err := ref.Reassemble(wm.Raw)
		if err != nil || !bytes.HasPrefix(full, []byte("?OTR:")) {
			return false
		}
		raw, err := ref.Dearmor(full)
		if err != nil {
			return false
		}
		h, err := ref.ParseHeader(raw)
		if err != nil || h == nil || h.HdrLen == 0 {
			return false
		}
		var out []byte
		switch s.F {
		case "enc", "hash", "r", "mac":
			out = flipIn(raw, s.F, rng)
		case "mac-text":
			out = flipIn(raw, "enc", rng)
		case "mac-ctr":
			if d, err := ref.ParseData(cloneBytes(h.Body)); err == nil {
				binary.BigEndian.PutUint64(d.Ctr[:], binary.BigEndian.Uint64(d.Ctr[:])+1)
				out = append(cloneBytes(h.HdrBytes), d.Bytes()...)
			}
		case "gy-deg":
			out = append(cloneBytes(h.HdrBytes), ref.PutMPI(nil, degenerate()[int(w.Seed%5)])...)
		case "gy-other":
			out = append(cloneBytes(h.HdrBytes), ref.PutMPI(nil, ref.Pub([]byte{byte(rng.Intn(250) + 3), 7, 9}))...)
		case "xs-ok":
			out = flipIn(raw, "mac", rng)
		case "xs-sig":
			k := akeKeysOf(w, wm)
			if k == nil {
				return false
			}
			switch h.Type {
			case ref.TypeRevealSig:
				m, err := ref.ParseRevealSig(h.Body)
				if err != nil {
					return false
				}
				enc, mac := resealBadSig(k, true, m.EncSig)
				if enc == nil {
					return false
				}
				out = append(cloneBytes(h.HdrBytes), (&ref.RevealSig{R: m.R, EncSig: enc, MAC: mac}).Bytes()...)
			case ref.TypeSig:
				m, err := ref.ParseSig(h.Body)
				if err != nil {
					return false
				}
				enc, mac := resealBadSig(k, false, m.EncSig)
				if enc == nil {
					return false
				}
				out = append(cloneBytes(h.HdrBytes), (&ref.Sig{EncSig: enc, MAC: mac}).Bytes()...)
			}
		case "st-other", "st-invalid", "rt-other":
			if h.Version != 3 {
				return false
			}
			out = cloneBytes(raw)
			switch s.F {
			case "st-other":
				binary.BigEndian.PutUint32(out[3:], 0x33330000+uint32(rng.Intn(4)))
			case "st-invalid":
				binary.BigEndian.PutUint32(out[3:], uint32(rng.Intn(0x100)))
			case "rt-other":
				binary.BigEndian.PutUint32(out[7:], 0x44440000+uint32(rng.Intn(4)))
			}
		}
		if out == nil {
			return false
		}
		w.ReceiveAttack(p, [][]byte{ref.Armor(out)}, name)
		return true
	}
	// Forged: built by E
	e := eOf(w)
	pr := otr3.VerifProject(p.Conv)
	version := int(pr.Version)
	if version == 0 {
		version = 3
		if !p.Pol.V3 {
			version = 2
		}
	}
	if s.Z == 2 || s.Z == 3 {
		version = s.Z
	}
	var st, rt uint32
	if version == 3 {
		st, rt = e.tag, pr.OurTag
	}
	// what the victim has put on the wire so far, as E sees it
	victimGy := func() *big.Int {
		if m := lastOut(w, p.Name, "DHK"); m != nil {
			if hk, err := ref.ParseHeader(rawOf(m)); err == nil {
				if k, err := ref.ParseDHKey(hk.Body); err == nil {
					return k.Gy
				}
			}
		}
		return nil
	}
	switch s.F {
	case "f-dhc", "f-dhc-deg":
		gx := e.x.Pub
		r := e.r
		if s.F == "f-dhc-deg" {
			gx = degenerate()[int(w.Seed%5)]
			r = e.ev.bytes(16)
		}
		mpi := ref.PutMPI(nil, gx)
		encgx := ref.CTR(r, nil, mpi)
		hh := sha256.Sum256(mpi)
		if s.F == "f-dhc-deg" {
			w.EvilCommits[string(encgx)] = -2
			w.EvilRs[string(r)] = -2
			w.EvilValues[-2] = gx
		}
		m := append(ref.BuildHeader(version, ref.TypeDHCommit, st, rt), (&ref.DHCommit{EncGx: encgx, HashGx: hh[:]}).Bytes()...)
		w.ReceiveAttack(p, [][]byte{ref.Armor(m)}, name)
	case "f-dhk":
		m := append(ref.BuildHeader(version, ref.TypeDHKey, st, rt), (&ref.DHKey{Gy: e.x.Pub}).Bytes()...)
		w.ReceiveAttack(p, [][]byte{ref.Armor(m)}, name)
	case "f-rs-E", "f-rs-A", "f-rs-B":
		gy := victimGy()
		if gy == nil {
			gy = ref.Pub([]byte{9, 9, 9})
		}
		keys := ref.DeriveAKEKeys(ref.Shared(gy, e.x.X))
		o := akeOpts{version: version, claim: "E", degen: -1}
		if s.F != "f-rs-E" {
			o.claim = "B"
			if s.F == "f-rs-A" {
				o.claim = "A"
			}
		}
		enc, mac := e.ev.seal(keys, true, e.x.Pub, gy, o)
		m := append(ref.BuildHeader(version, ref.TypeRevealSig, st, rt), (&ref.RevealSig{R: e.r, EncSig: enc, MAC: mac}).Bytes()...)
		w.ReceiveAttack(p, [][]byte{ref.Armor(m)}, name)
	case "f-sig-E", "f-sig-A", "f-sig-B":
		// the victim's g^x: from its DH-Commit and Reveal-Signature, if both are on the wire
		var gx *big.Int
		dhc, rsm := lastOut(w, p.Name, "DHC"), lastOut(w, p.Name, "RS")
		if dhc != nil && rsm != nil {
			hc, _ := ref.ParseHeader(rawOf(dhc))
			hr, _ := ref.ParseHeader(rawOf(rsm))
			if hc != nil && hr != nil {
				c, err1 := ref.ParseDHCommit(hc.Body)
				rs, err2 := ref.ParseRevealSig(hr.Body)
				if err1 == nil && err2 == nil {
					if gxm := ref.CTR(rs.R, nil, c.EncGx); len(gxm) > 4 {
						gx = new(big.Int).SetBytes(gxm[4:])
					}
				}
			}
		}
		if gx == nil || gx.Sign() == 0 {
			gx = ref.Pub([]byte{8, 8, 8})
		}
		keys := ref.DeriveAKEKeys(ref.Shared(gx, e.x.X))
		o := akeOpts{version: version, claim: "E", degen: -1}
		if s.F != "f-sig-E" {
			o.claim = "B"
			if s.F == "f-sig-A" {
				o.claim = "A"
			}
		}
		enc, mac := e.ev.seal(keys, false, e.x.Pub, gx, o)
		m := append(ref.BuildHeader(version, ref.TypeSig, st, rt), (&ref.Sig{EncSig: enc, MAC: mac}).Bytes()...)
		w.ReceiveAttack(p, [][]byte{ref.Armor(m)}, name)
	default:
		return false
	}
	return true
}
