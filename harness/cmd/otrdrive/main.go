package main

import (
	"fmt"
	"os"

	"verif/harness/world"
)

func main() {
	if len(os.Args) < 2 {
		fmt.Fprintln(os.Stderr, "usage: otrdrive <cmd> ...")
		os.Exit(2)
	}
	switch os.Args[1] {
	case "smoke":
		smoke()
	default:
		os.Exit(run(os.Args[1], os.Args[2:]))
	}
}

func smoke() {
	w := world.New(1, os.Stdout)
	pol := world.Policy{V2: true, V3: true}
	w.AddParty("A", "B", pol, 0)
	w.AddParty("B", "A", pol, 0)
	w.Init()
	ok := w.Handshake("A")
	fmt.Fprintln(os.Stderr, "handshake:", ok)
	w.Send(w.P["A"], 1)
	w.Deliver(w.P["B"])
	w.Send(w.P["B"], 2)
	w.Deliver(w.P["A"])
	w.Send(w.P["A"], 3)
	w.Deliver(w.P["B"])
	w.End(w.P["A"])
	w.Deliver(w.P["B"])
	w.Flush()
}
