package main

import (
	"bufio"
	"encoding/json"
	"flag"
	"fmt"
	"math/rand"
	"os"
	"strings"

	otr3 "github.com/coyim/otr3"

	"verif/harness/world"
)

// Step is one abstract action of a schedule.
type Step struct {
	A string `json:"a"`
	P string `json:"p"`
	T int    `json:"t,omitempty"`
	I int    `json:"i,omitempty"`
	Z int    `json:"z,omitempty"`
	S int    `json:"s,omitempty"`
	Q bool   `json:"q,omitempty"`
	F string `json:"f,omitempty"`
}

// Schedule is one run: configuration plus steps.
type Schedule struct {
	ID    string         `json:"id"`
	Pol   map[string]int `json:"pol"`
	Ver   map[string]int `json:"ver"`
	Setup string         `json:"setup"`
	Fam   string         `json:"fam,omitempty"`
	Frag  map[string]int `json:"frag,omitempty"`
	Seed  uint64         `json:"seed,omitempty"`
	// TextBase is added to the text ids of Send steps
	TextBase int `json:"textbase,omitempty"`
	// ShortDH: every DH exponent drawn has a public value with a leading zero byte
	ShortDH bool `json:"shortdh,omitempty"`
	// Multi: the account of B is logged in from a second client C (same long-term key, own instance
	// tag); what A sends reaches both, what either sends reaches A (OTRMulti.tla)
	Multi bool `json:"multi,omitempty"`
	// NoKeys: parties created without a long-term key
	NoKeys []string `json:"nokeys,omitempty"`
	Steps  []Step   `json:"steps"`
}

var scanAll bool

func newWorld(sc *Schedule, seed uint64, out *os.File) *world.World {
	w := world.New(seed, out)
	w.Scan = scanAll
	for _, n := range []string{"A", "B"} {
		peer := "B"
		if n == "B" {
			peer = "A"
		}
		bits, ok := sc.Pol[n]
		if !ok {
			bits = 3
		}
		w.AddParty(n, peer, world.PolicyFromBits(bits), sc.Ver[n])
		if z := sc.Frag[n]; z > 0 {
			w.SetFragSize(w.P[n], z)
		}
		w.P[n].Rand.ShortDH = sc.ShortDH
		for _, nk := range sc.NoKeys {
			if nk == n {
				w.P[n].Conv.SetOurKeys(nil)
				w.P[n].NoKeys = true
			}
		}
	}
	if sc.Multi {
		bits, ok := sc.Pol["C"]
		if !ok {
			bits = 2
		}
		w.AddPartyKey("C", "A", world.PolicyFromBits(bits), sc.Ver["C"], "B")
		w.P["A"].Cc = []string{"C"}
		if z := sc.Frag["C"]; z > 0 {
			w.SetFragSize(w.P["C"], z)
		}
	}
	w.TextBase = sc.TextBase
	fam := sc.Fam
	if fam == "" {
		fam = "none"
	}
	w.InitFam(fam)
	if sc.Setup == "ake" {
		w.Handshake("A")
	} else if sc.Setup == "akeB" {
		w.Handshake("B")
	}
	return w
}

// secretBytes concretises a secret id: equal ids give equal bytes, different ids different
// bytes; the set covers empty, one byte, 64 KiB, all byte values, one-bit and length differences.
func secretBytes(id int) []byte {
	switch id {
	case 1:
		return []byte{}
	case 2:
		return []byte("x")
	case 3:
		b := make([]byte, 65536)
		for i := range b {
			b[i] = byte(i*7 + i>>8)
		}
		return b
	case 4:
		b := make([]byte, 256)
		for i := range b {
			b[i] = byte(i)
		}
		return b
	case 5:
		return []byte("correct horse battery staple")
	case 6:
		return []byte("correct horse battery stapld")
	case 7:
		return []byte("pass")
	case 8:
		return []byte("pass\x00")
	case 9:
		return []byte("open sesame ")
	case 10:
		return []byte(" open sesame")
	case 11:
		return []byte("1234")
	case 12:
		return []byte("1234\n")
	case 13:
		return []byte("\t1234")
	case 14:
		return []byte{0}
	case 15:
		return []byte("\x00\x001337")
	case 16:
		return []byte("1337")
	}
	return []byte(fmt.Sprintf("smp-secret-%d", id))
}

// execStep executes one step; returns false if it was not executable.
func execStep(w *world.World, s Step) bool {
	p := w.P[s.P]
	if p == nil {
		return false
	}
	switch s.A {
	case "Send":
		w.Send(p, s.T)
	case "Deliver":
		return w.Deliver(p) != nil
	case "Query":
		w.Query(p)
	case "End":
		w.End(p)
	case "Tick":
		w.Tick(p)
	case "ExtraKey":
		w.ExtraKey(p, 7, []byte("usage"))
	case "SMPStart":
		q := ""
		if s.Q {
			q = "question?"
		}
		if s.Z > 65000 {
			q = strings.Repeat("why? ", s.Z/5+1)
		}
		w.SMPStart(p, secretBytes(s.S), q, s.S)
	case "SMPAnswer":
		w.SMPAnswer(p, secretBytes(s.S), s.S)
	case "SMPAbort":
		w.SMPAbort(p)
	case "DrainUntilEnc":
		// deliveries in turn until p is encrypted (whatever else is in flight stays in flight)
		for k := 0; k < 40 && !p.Conv.IsEncrypted(); k++ {
			a, b := w.P["A"], w.P["B"]
			if len(a.Queue) == 0 && len(b.Queue) == 0 {
				break
			}
			if len(b.Queue) > 0 {
				w.Deliver(b)
			}
			if !p.Conv.IsEncrypted() && len(a.Queue) > 0 {
				w.Deliver(a)
			}
		}
	case "FragSize":
		w.SetFragSize(p, s.Z)
	case "SetKeys":
		// the application registers another long-term key (listed first) while the conversation goes
		// on: nothing about the running session may change
		other, _ := world.DSAKey("X")
		p.Conv.SetOurKeys([]otr3.PrivateKey{other, p.Priv})
	case "Reinstall":
		w.Reinstall(p, "X")
	case "Recover":
		// as a user would: while the two sides are not in one encrypted session, end and start over
		for k := 0; k < 4; k++ {
			a, b := w.P["A"], w.P["B"]
			if a.Conv.IsEncrypted() && b.Conv.IsEncrypted() && a.Conv.GetSSID() == b.Conv.GetSSID() {
				break
			}
			w.End(a)
			drain(w, 8)
			w.End(b)
			drain(w, 8)
			w.Tick(a)
			w.Tick(b)
			w.Query(a)
			drain(w, 16)
		}
	case "FailRand":
		// the read number I (counted from the creation of the conversation) of p's randomness
		// source fails (short read if Q)
		if s.F != "" {
			// the read number I made by callers of class F (e.g. "smp") fails
			p.Rand.FailClass, p.Rand.FailClassAt, p.Rand.Short = s.F, s.I, s.Q
		} else {
			p.Rand.FailAt, p.Rand.Short = s.I, s.Q
		}
	case "Err":
		w.InjectRaw(p, []byte("?OTR Error: peer could not read the message"))
	case "Drop":
		if len(p.Queue) == 0 {
			return false
		}
		p.Queue = p.Queue[1:]
	case "Dup":
		if len(p.Queue) == 0 {
			return false
		}
		w.Receive(p, p.Queue[0])
	case "ReplayAny":
		// re-deliver some earlier wire message addressed to p (index modulo their number)
		var cand []*world.WireMsg
		for _, wm := range w.Wire {
			if wm.To == p.Name {
				cand = append(cand, wm)
			}
		}
		if len(cand) == 0 {
			return false
		}
		w.Receive(p, cand[s.I%len(cand)])
	case "Replay":
		// re-deliver wire message number I (1-based) addressed to p
		if s.I < 1 || s.I > len(w.Wire) || w.Wire[s.I-1].To != p.Name {
			return false
		}
		w.Receive(p, w.Wire[s.I-1])
	case "DeliverAt":
		if s.I < 0 || s.I >= len(p.Queue) {
			return false
		}
		wm := p.Queue[s.I]
		p.Queue = append(append([]*world.WireMsg{}, p.Queue[:s.I]...), p.Queue[s.I+1:]...)
		w.Receive(p, wm)
	default:
		return execAttack(w, s)
	}
	return true
}

// drain delivers everything until both queues are empty (bounded).
func drain(w *world.World, max int) {
	for i := 0; i < max; i++ {
		a, b := w.P["A"], w.P["B"]
		c := w.P["C"]
		if c != nil && !c.Mute && len(c.Queue) > 0 {
			w.Deliver(c)
			continue
		}
		if len(a.Queue) == 0 && len(b.Queue) == 0 {
			return
		}
		if len(b.Queue) > 0 {
			w.Deliver(b)
		}
		if len(a.Queue) > 0 {
			w.Deliver(a)
		}
	}
}

func firstLines(s string, n int) string {
	out := ""
	for i, l := range strings.Split(s, "\n") {
		if i >= n {
			break
		}
		out += l + " | "
	}
	return out
}

func cmdRun(args []string) int {
	fs := flag.NewFlagSet("run", flag.ExitOnError)
	sched := fs.String("sched", "", "schedules (NDJSON)")
	out := fs.String("out", "", "trace output (NDJSON)")
	seed := fs.Uint64("seed", 1, "seed")
	doDrain := fs.Bool("drain", false, "deliver everything at the end of each schedule")
	scan := fs.Bool("scan", false, "scan the object graph for retained secrets and texts after every call")
	fs.Parse(args)
	f, err := os.Open(*sched)
	if err != nil {
		fmt.Fprintln(os.Stderr, err)
		return 2
	}
	defer f.Close()
	of, err := os.Create(*out)
	if err != nil {
		fmt.Fprintln(os.Stderr, err)
		return 2
	}
	defer of.Close()
	sc := bufio.NewScanner(f)
	sc.Buffer(make([]byte, 1<<20), 1<<26)
	n, events, skipped := 0, 0, 0
	for sc.Scan() {
		var s Schedule
		if err := json.Unmarshal(sc.Bytes(), &s); err != nil {
			fmt.Fprintln(os.Stderr, "bad schedule:", err)
			return 2
		}
		sd := *seed + uint64(n)*7919
		if s.Seed != 0 {
			sd = s.Seed
		}
		scanAll = *scan
		w := newWorld(&s, sd, of)
		for _, st := range s.Steps {
			if !execStep(w, st) {
				skipped++
				if os.Getenv("VERIF_DEBUG") != "" {
					fmt.Fprintf(os.Stderr, "skipped %+v\n", st)
				}
			}
		}
		if *doDrain {
			drain(w, 64)
		}
		w.Done()
		w.Flush()
		events += w.N
		n++
		if len(w.Panics) > 0 {
			fmt.Printf("PANIC schedule=%s %s\n", s.ID, firstLines(w.Panics[0], 1))
		}
	}
	fmt.Printf("RUN schedules=%d events=%d skipped=%d\n", n, events, skipped)
	return 0
}

// cmdGen writes seeded random schedules of a family (they are executed by "run").
func cmdGen(args []string) int {
	fs := flag.NewFlagSet("gen", flag.ExitOnError)
	out := fs.String("out", "", "schedule output (NDJSON)")
	seed := fs.Uint64("seed", 1, "seed")
	num := fs.Int("n", 10, "number of runs")
	depth := fs.Int("depth", 40, "steps per run")
	family := fs.String("family", "data", "data|life|bag")
	fs.Parse(args)
	of, err := os.Create(*out)
	if err != nil {
		fmt.Fprintln(os.Stderr, err)
		return 2
	}
	defer of.Close()
	bw := bufio.NewWriter(of)
	defer bw.Flush()
	rng := rand.New(rand.NewSource(int64(*seed)))
	for i := 0; i < *num; i++ {
		genIdx = int(*seed%1000)**num + i
		sc := genSchedule(rng, *family, *depth)
		sc.ID = fmt.Sprintf("%s-%d-%d", *family, *seed, i)
		sc.Seed = *seed*1000003 + uint64(i) + 1
		b, _ := json.Marshal(sc)
		bw.Write(b)
		bw.WriteByte('\n')
	}
	return 0
}

// genIdx is the position of the schedule being generated among all shards of one family run
// (the shard number is the seed modulo 1000); systematic families enumerate by it.
var genIdx int

func genSchedule(rng *rand.Rand, family string, depth int) *Schedule {
	if family == "shortdh" {
		// a handshake (either start) and ping-pong traffic in which every DH value is short
		sc := genSchedule(rng, "pingpong", depth)
		sc.Setup = "none"
		sc.ShortDH = true
		sc.Fam = "none"
		pre := []Step{{A: "Query", P: []string{"A", "B"}[rng.Intn(2)]}}
		for k := 0; k < 4; k++ {
			pre = append(pre, Step{A: "Deliver", P: "B"}, Step{A: "Deliver", P: "A"})
		}
		sc.Steps = append(pre, sc.Steps...)
		return sc
	}
	if family == "qlife" || family == "qerrlife" {
		// the lifecycle families with texts that begin like a query message
		sc := genSchedule(rng, family[1:], depth)
		sc.TextBase = 6000
		return sc
	}
	sc := &Schedule{Pol: map[string]int{}, Ver: map[string]int{}, Frag: map[string]int{}}
	switch rng.Intn(3) {
	case 0:
		sc.Pol["A"], sc.Pol["B"] = 1, 1
	case 1:
		sc.Pol["A"], sc.Pol["B"] = 2, 3
	default:
		sc.Pol["A"], sc.Pol["B"] = 3, 3
	}
	if family == "life" || family == "errlife" || family == "akestart" {
		sc.Pol["A"] |= rng.Intn(16) << 2
		sc.Pol["B"] |= rng.Intn(16) << 2
	}
	if rng.Intn(3) == 0 {
		sc.Frag["A"] = []int{60, 100, 300, 1000}[rng.Intn(4)]
	}
	if rng.Intn(3) == 0 {
		sc.Frag["B"] = []int{60, 100, 300, 1000}[rng.Intn(4)]
	}
	sc.Fam = "none"
	ps := []string{"A", "B"}
	text := 0
	add := func(s Step) { sc.Steps = append(sc.Steps, s) }
	switch family {
	case "smp":
		// SMP runs (equal / different secrets, with / without question, either initiator,
		// back to back, aborted, answered late) interleaved with ordinary traffic
		sc.Setup = "ake"
		if rng.Intn(4) == 0 {
			// the peer comes back with another long-term key: new session, SMP binds to the new key
			p := ps[rng.Intn(2)]
			add(Step{A: "SMPStart", P: "A", S: 2})
			add(Step{A: "Deliver", P: "B"})
			add(Step{A: "SMPAnswer", P: "B", S: 2})
			for k := 0; k < 3; k++ {
				add(Step{A: "Deliver", P: "A"})
				add(Step{A: "Deliver", P: "B"})
			}
			add(Step{A: "SetKeys", P: p})
			add(Step{A: "Tick", P: "A"})
			add(Step{A: "Tick", P: "B"})
			add(Step{A: "Query", P: p})
			for k := 0; k < 5; k++ {
				add(Step{A: "Deliver", P: "A"})
				add(Step{A: "Deliver", P: "B"})
			}
			if rng.Intn(2) == 0 {
				// ... or for real: the session is ended on both sides, p's user starts over with a fresh
				// conversation that signs with a new key; the other side keeps its conversation
				add(Step{A: "End", P: "A"})
				add(Step{A: "Deliver", P: "B"})
				add(Step{A: "End", P: "B"})
				add(Step{A: "Deliver", P: "A"})
				add(Step{A: "Reinstall", P: p})
				add(Step{A: "Tick", P: "A"})
				add(Step{A: "Tick", P: "B"})
				add(Step{A: "Query", P: ps[rng.Intn(2)]})
				for k := 0; k < 5; k++ {
					add(Step{A: "Deliver", P: "A"})
					add(Step{A: "Deliver", P: "B"})
				}
			}
		} else if rng.Intn(3) == 0 {
			add(Step{A: "SetKeys", P: ps[rng.Intn(2)]})
			add(Step{A: "Send", P: "A", T: 901})
			add(Step{A: "Deliver", P: "B"})
			add(Step{A: "Send", P: "B", T: 902})
			add(Step{A: "Deliver", P: "A"})
		}
		if rng.Intn(3) == 0 {
			add(Step{A: "SMPAnswer", P: ps[rng.Intn(2)], S: 1})
		}
		for d := 0; d < depth; d++ {
			if rng.Intn(10) == 0 {
				// end the session, answer into the void, start again
				q := ps[rng.Intn(2)]
				add(Step{A: "End", P: q})
				add(Step{A: "SMPAnswer", P: q, S: 1})
				add(Step{A: "Deliver", P: "A"})
				add(Step{A: "Deliver", P: "B"})
				add(Step{A: "SMPAnswer", P: "A", S: 1})
				add(Step{A: "SMPStart", P: "B", S: 1})
				add(Step{A: "End", P: "A"})
				add(Step{A: "End", P: "B"})
				add(Step{A: "Tick", P: "A"})
				add(Step{A: "Tick", P: "B"})
				add(Step{A: "Query", P: q})
				for k := 0; k < 6; k++ {
					add(Step{A: "Deliver", P: "A"})
					add(Step{A: "Deliver", P: "B"})
				}
			}
			ini := ps[rng.Intn(2)]
			oth := "B"
			if ini == "B" {
				oth = "A"
			}
			s1 := 1 + rng.Intn(16)
			s2 := s1
			if rng.Intn(3) == 0 {
				s2 = 1 + rng.Intn(16)
			}
			traffic := func() {
				for k := 0; k < rng.Intn(3); k++ {
					text++
					q := ps[rng.Intn(2)]
					add(Step{A: "Send", P: q, T: text})
					if rng.Intn(2) == 0 {
						add(Step{A: "Deliver", P: "A"})
						add(Step{A: "Deliver", P: "B"})
					}
				}
			}
			add(Step{A: "SMPStart", P: ini, S: s1, Q: rng.Intn(2) == 0})
			traffic()
			add(Step{A: "Deliver", P: oth})
			switch rng.Intn(8) {
			case 0:
				add(Step{A: "SMPAbort", P: ps[rng.Intn(2)]})
			case 1:
				add(Step{A: "SMPStart", P: oth, S: s2})
			}
			traffic()
			add(Step{A: "SMPAnswer", P: oth, S: s2})
			for k := 0; k < 4; k++ {
				traffic()
				add(Step{A: "Deliver", P: ini})
				add(Step{A: "Deliver", P: oth})
			}
			if rng.Intn(6) == 0 {
				add(Step{A: "SMPAnswer", P: ps[rng.Intn(2)], S: s1})
			}
		}
		return sc
	case "smpretry":
		// the same two users try again with the very same inputs (their applications hand the library the
		// same buffers): the verdict of the second and third run is the verdict of the first
		sc.Setup = "ake"
		v := genIdx
		pairs := [][2]int{{5, 6}, {6, 5}, {11, 16}, {5, 5}, {7, 8}, {9, 10}}
		pr := pairs[(v/2)%len(pairs)]
		for k := 0; k < 3; k++ {
			ini, oth := ps[(v+k/2)%2], ps[1-(v+k/2)%2]
			s1, s2 := pr[0], pr[1]
			if ini == "B" {
				s1, s2 = s2, s1
			}
			add(Step{A: "SMPStart", P: ini, S: s1, Q: (v/12)%2 == 1})
			add(Step{A: "Deliver", P: oth})
			add(Step{A: "SMPAnswer", P: oth, S: s2})
			for j := 0; j < 3; j++ {
				add(Step{A: "Deliver", P: ini})
				add(Step{A: "Deliver", P: oth})
			}
		}
		return sc
	case "smpend":
		// an SMP run in every stage and with every outcome (just started, waiting for the answer, half done,
		// succeeded, failed, aborted by either side), then the session ends: End() by one side, the
		// disconnect delivered to the other.  Nothing of the run may stay behind (C08).
		sc.Setup = "ake"
		v := genIdx
		ini, oth := ps[v%2], ps[1-v%2]
		stage := (v / 2) % 7
		ender := ps[(v/14)%2]
		s1, s2 := 5, 5
		add(Step{A: "SMPStart", P: ini, S: s1, Q: (v/28)%2 == 1})
		if stage >= 1 {
			add(Step{A: "Deliver", P: oth})
		}
		switch stage {
		case 2, 3:
			add(Step{A: "SMPAnswer", P: oth, S: s2})
			if stage == 3 {
				add(Step{A: "Deliver", P: ini})
			}
		case 4, 5:
			if stage == 5 {
				s2 = 6
			}
			add(Step{A: "SMPAnswer", P: oth, S: s2})
			for k := 0; k < 3; k++ {
				add(Step{A: "Deliver", P: ini})
				add(Step{A: "Deliver", P: oth})
			}
		case 6:
			add(Step{A: "SMPAnswer", P: oth, S: s2})
			add(Step{A: "SMPAbort", P: ps[(v/28)%2]})
			for k := 0; k < 2; k++ {
				add(Step{A: "Deliver", P: ini})
				add(Step{A: "Deliver", P: oth})
			}
		}
		add(Step{A: "End", P: ender})
		for k := 0; k < 3; k++ {
			add(Step{A: "Deliver", P: "A"})
			add(Step{A: "Deliver", P: "B"})
		}
		other := "B"
		if ender == "B" {
			other = "A"
		}
		add(Step{A: "End", P: other})
		return sc
	case "smpcount":
		// every SMP message with every wrong count of numbers (one short, one more, none, 2^32-1, 2^28), both
		// versions; then an honest run that must succeed
		sc.Setup, sc.Fam = "ake", "smpdev"
		sc.Frag = map[string]int{}
		sc.Pol["A"], sc.Pol["B"] = 1, 1
		if genIdx%2 == 1 {
			sc.Pol["A"], sc.Pol["B"] = 3, 3
		}
		{
			which := (genIdx / 2) % 4
			force := []string{"count-1", "count+1", "count0", "countmax", "count2^28", "count2^30", "count2^30+1", "count2^31"}[(genIdx/8)%8]
			ini, oth := "A", "B"
			add(Step{A: "SMPStart", P: ini, S: 1, Q: (genIdx/64)%2 == 1})
			if which == 0 {
				add(Step{A: "SMPTamper", P: oth, F: force})
			} else {
				add(Step{A: "Deliver", P: oth})
			}
			add(Step{A: "SMPAnswer", P: oth, S: 1})
			if which == 1 {
				add(Step{A: "SMPTamper", P: ini, F: force})
			} else {
				add(Step{A: "Deliver", P: ini})
			}
			if which == 2 {
				add(Step{A: "SMPTamper", P: oth, F: force})
			} else {
				add(Step{A: "Deliver", P: oth})
			}
			if which == 3 {
				add(Step{A: "SMPTamper", P: ini, F: force})
			} else {
				add(Step{A: "Deliver", P: ini})
			}
			for k := 0; k < 3; k++ {
				add(Step{A: "Deliver", P: "A"})
				add(Step{A: "Deliver", P: "B"})
			}
			add(Step{A: "SMPStart", P: oth, S: 5})
			add(Step{A: "Deliver", P: ini})
			add(Step{A: "SMPAnswer", P: ini, S: 5})
			for k := 0; k < 3; k++ {
				add(Step{A: "Deliver", P: "A"})
				add(Step{A: "Deliver", P: "B"})
			}
		}
		return sc
	case "smpbigq":
		// a start refused because the question does not fit into a TLV, at each point of a run or with none in
		// progress; what follows (the peer's next message, a fresh run either way) goes on as if it had not been made
		sc.Setup = "ake"
		sc.Frag = map[string]int{}
		sc.Pol["A"], sc.Pol["B"] = 3, 3
		if genIdx%2 == 1 {
			sc.Pol["A"], sc.Pol["B"] = 1, 1
		}
		{
			at := (genIdx / 2) % 4
			big := Step{A: "SMPStart", P: []string{"A", "B"}[(genIdx/8)%2], S: 1, Q: true, Z: 70000}
			if at == 0 {
				add(big)
			}
			add(Step{A: "SMPStart", P: "A", S: 1})
			if at == 1 {
				add(big)
			}
			add(Step{A: "Deliver", P: "B"})
			if at == 2 {
				add(big)
			}
			add(Step{A: "SMPAnswer", P: "B", S: 1})
			if at == 3 {
				add(big)
			}
			for k := 0; k < 4; k++ {
				add(Step{A: "Deliver", P: "A"})
				add(Step{A: "Deliver", P: "B"})
			}
			add(Step{A: "SMPStart", P: "B", S: 5})
			add(Step{A: "Deliver", P: "A"})
			add(Step{A: "SMPAnswer", P: "A", S: 5})
			for k := 0; k < 3; k++ {
				add(Step{A: "Deliver", P: "A"})
				add(Step{A: "Deliver", P: "B"})
			}
		}
		return sc
	case "smptlv":
		// an authenticated message that carries an SMP TLV and a "disconnected" TLV (either order), at
		// each of the four SMP steps; afterwards the parties start over
		sc.Setup = "ake"
		sc.Frag = map[string]int{}
		sc.Pol["A"], sc.Pol["B"] = 1, 1
		if genIdx%2 == 1 {
			sc.Pol["A"], sc.Pol["B"] = 3, 3
		}
		{
			which := (genIdx / 2) % 4
			variant := 5 + (genIdx/8)%2
			ini, oth := "A", "B"
			if (genIdx/16)%2 == 1 {
				ini, oth = "B", "A"
			}
			add(Step{A: "SMPStart", P: ini, S: 1, Q: (genIdx/32)%2 == 1})
			if which == 0 {
				add(Step{A: "SMPTamper", P: oth, I: variant})
			} else {
				add(Step{A: "Deliver", P: oth})
			}
			add(Step{A: "SMPAnswer", P: oth, S: 1})
			if which == 1 {
				add(Step{A: "SMPTamper", P: ini, I: variant})
			} else {
				add(Step{A: "Deliver", P: ini})
			}
			if which == 2 {
				add(Step{A: "SMPTamper", P: oth, I: variant})
			} else {
				add(Step{A: "Deliver", P: oth})
			}
			if which == 3 {
				add(Step{A: "SMPTamper", P: ini, I: variant})
			} else {
				add(Step{A: "Deliver", P: ini})
			}
			for k := 0; k < 3; k++ {
				add(Step{A: "Deliver", P: "A"})
				add(Step{A: "Deliver", P: "B"})
			}
			add(Step{A: "Recover", P: "A"})
			add(Step{A: "Send", P: "A", T: 9001})
			add(Step{A: "Send", P: "B", T: 9002})
			add(Step{A: "Deliver", P: "B"})
			add(Step{A: "Deliver", P: "A"})
		}
		return sc
	case "smpdeg":
		// systematic: an authenticated SMP message 2 whose group elements are degenerate but whose
		// proofs are consistent (Pb or Qb not invertible, written as 0 or as the modulus), under both
		// protocol versions and for either initiator; then an honest run that must succeed
		sc.Setup, sc.Fam = "ake", "smpdev"
		sc.Frag = map[string]int{}
		sc.Pol["A"], sc.Pol["B"] = 1, 1
		if genIdx%2 == 1 {
			sc.Pol["A"], sc.Pol["B"] = 3, 3
		}
		ini, oth := "A", "B"
		if (genIdx/8)%2 == 1 {
			ini, oth = "B", "A"
		}
		add(Step{A: "SMPStart", P: ini, S: 1, Q: (genIdx/16)%2 == 1})
		add(Step{A: "Deliver", P: oth})
		add(Step{A: "SMPAnswer", P: oth, S: 1})
		add(Step{A: "SMPTamper", P: ini, I: 3 + 7*((genIdx/2)%4)})
		for k := 0; k < 3; k++ {
			add(Step{A: "Deliver", P: "A"})
			add(Step{A: "Deliver", P: "B"})
		}
		add(Step{A: "SMPStart", P: oth, S: 5})
		add(Step{A: "Deliver", P: ini})
		add(Step{A: "SMPAnswer", P: ini, S: 5})
		for k := 0; k < 3; k++ {
			add(Step{A: "Deliver", P: "A"})
			add(Step{A: "Deliver", P: "B"})
		}
		return sc
	case "smpdev":
		// one deviant SMP message per round (any of the four messages, any field / boundary value /
		// miscount), then an honest run with equal secrets that must succeed
		sc.Setup, sc.Fam = "ake", "smpdev"
		for d := 0; d < depth; d++ {
			ini, oth := "A", "B"
			if rng.Intn(2) == 0 {
				ini, oth = "B", "A"
			}
			which := rng.Intn(4)
			variant := rng.Intn(100000)
			for variant%13 == 5 || variant%13 == 6 {
				variant = rng.Intn(100000) // the session-ending combinations belong to family smptlv
			}
			add(Step{A: "SMPStart", P: ini, S: 1, Q: rng.Intn(2) == 0})
			if which == 0 {
				add(Step{A: "SMPTamper", P: oth, I: variant})
			} else {
				add(Step{A: "Deliver", P: oth})
			}
			add(Step{A: "SMPAnswer", P: oth, S: 1})
			if which == 1 {
				add(Step{A: "SMPTamper", P: ini, I: variant})
			} else {
				add(Step{A: "Deliver", P: ini})
			}
			if which == 2 {
				add(Step{A: "SMPTamper", P: oth, I: variant})
			} else {
				add(Step{A: "Deliver", P: oth})
			}
			if which == 3 {
				add(Step{A: "SMPTamper", P: ini, I: variant})
			} else {
				add(Step{A: "Deliver", P: ini})
			}
			for k := 0; k < 3; k++ {
				add(Step{A: "Deliver", P: "A"})
				add(Step{A: "Deliver", P: "B"})
			}
			// the honest run
			add(Step{A: "SMPStart", P: oth, S: 5})
			add(Step{A: "Deliver", P: ini})
			add(Step{A: "SMPAnswer", P: ini, S: 5})
			for k := 0; k < 3; k++ {
				add(Step{A: "Deliver", P: "A"})
				add(Step{A: "Deliver", P: "B"})
			}
		}
		return sc
	case "randfail":
		// a fixed scenario touching every call that draws randomness; read number k of one party
		// fails; afterwards the conversation must still be usable (handshake, a text each way)
		sc.Fam = "randfail"
		sc.Pol["A"], sc.Pol["B"] = 3, 3
		if rng.Intn(3) == 0 {
			sc.Pol["A"], sc.Pol["B"] = 1, 1
		}
		sc.Frag = map[string]int{}
		if rng.Intn(3) == 0 {
			// both sides start at the same moment (crossing DH-Commits: one side gives way and draws a
			// new exponent), the failing read is among the first ones, and the exchange is played out
			add(Step{A: "FailRand", P: ps[rng.Intn(2)], I: rng.Intn(10), Q: rng.Intn(2) == 0})
			add(Step{A: "Query", P: "A"})
			add(Step{A: "Query", P: "B"})
			for k := 0; k < 7; k++ {
				add(Step{A: "Deliver", P: "B"})
				add(Step{A: "Deliver", P: "A"})
			}
			if rng.Intn(2) == 0 {
				add(Step{A: "Query", P: ps[rng.Intn(2)]})
				for k := 0; k < 5; k++ {
					add(Step{A: "Deliver", P: "B"})
					add(Step{A: "Deliver", P: "A"})
				}
			}
		} else {
			if rng.Intn(3) == 0 {
				// one of the reads made for a key rotation while a data message is being received
				add(Step{A: "FailRand", P: ps[rng.Intn(2)], F: "ratchet", I: rng.Intn(7), Q: rng.Intn(2) == 0})
			} else if rng.Intn(3) == 0 {
				// one of the reads made while building SMP messages (their number is not known in terms of
				// the running count: the signature scheme draws a varying number of times before)
				add(Step{A: "FailRand", P: ps[rng.Intn(2)], F: "smp", I: rng.Intn(14), Q: rng.Intn(2) == 0})
			} else {
				add(Step{A: "FailRand", P: ps[rng.Intn(2)], I: rng.Intn(depth), Q: rng.Intn(2) == 0})
			}
			add(Step{A: "Query", P: "A"})
			for k := 0; k < 4; k++ {
				add(Step{A: "Deliver", P: "B"})
				add(Step{A: "Deliver", P: "A"})
			}
		}
		for k := 0; k < 3; k++ {
			text++
			add(Step{A: "Send", P: "A", T: text})
			add(Step{A: "ForgeDisclosed", P: "A"})
			add(Step{A: "Deliver", P: "B"})
			text++
			add(Step{A: "Send", P: "B", T: text})
			add(Step{A: "ForgeDisclosed", P: "A"})
			add(Step{A: "Deliver", P: "A"})
		}
		// whoever reads the wire forges with every MAC key published so far (they are published because the
		// key pairs they belong to are out of use: no forgery may be accepted)
		add(Step{A: "ForgeDisclosed", P: "A"})
		add(Step{A: "SMPStart", P: "A", S: 5, Q: true})
		add(Step{A: "Deliver", P: "B"})
		add(Step{A: "SMPAnswer", P: "B", S: 5})
		for k := 0; k < 3; k++ {
			add(Step{A: "Deliver", P: "A"})
			add(Step{A: "Deliver", P: "B"})
		}
		add(Step{A: "ForgeDisclosed", P: "A"})
		add(Step{A: "ExtraKey", P: "B"})
		add(Step{A: "Deliver", P: "A"})
		add(Step{A: "Tick", P: "A"})
		add(Step{A: "Tick", P: "B"})
		add(Step{A: "Query", P: "B"})
		for k := 0; k < 4; k++ {
			add(Step{A: "Deliver", P: "A"})
			add(Step{A: "Deliver", P: "B"})
		}
		// probe: everything still works (the failure may have hit the last exchange above, or
		// the first one below, hence two fresh starts)
		for rounds := 0; rounds < 1; rounds++ {
			add(Step{A: "End", P: "A"})
			add(Step{A: "Deliver", P: "B"})
			add(Step{A: "End", P: "B"})
			add(Step{A: "Deliver", P: "A"})
			add(Step{A: "Tick", P: "A"})
			add(Step{A: "Tick", P: "B"})
			add(Step{A: "Query", P: "A"})
			for k := 0; k < 5; k++ {
				add(Step{A: "Deliver", P: "B"})
				add(Step{A: "Deliver", P: "A"})
			}
		}
		add(Step{A: "Recover", P: "A"})
		add(Step{A: "Send", P: "A", T: 9001})
		add(Step{A: "Send", P: "B", T: 9002})
		add(Step{A: "Deliver", P: "B"})
		add(Step{A: "Deliver", P: "A"})
		return sc
	case "nokeys":
		// one side (sometimes both) has no long-term key: queries, texts, repeated starts from either
		// side, ends; nothing may crash and the side that has a key must behave as specified
		sc.Pol["A"] |= rng.Intn(16) << 2
		sc.Pol["B"] |= rng.Intn(16) << 2
		sc.NoKeys = []string{ps[rng.Intn(2)]}
		if rng.Intn(6) == 0 {
			sc.NoKeys = []string{"A", "B"}
		}
		for d := 0; d < depth; d++ {
			p := ps[rng.Intn(2)]
			switch rng.Intn(10) {
			case 0, 1:
				add(Step{A: "Query", P: p})
			case 2, 3:
				text++
				add(Step{A: "Send", P: p, T: text})
			case 4:
				add(Step{A: "End", P: p})
			case 5:
				add(Step{A: "Tick", P: p})
			case 6:
				switch rng.Intn(4) {
				case 0:
					add(Step{A: "SMPStart", P: p, S: 1, Q: rng.Intn(2) == 0})
				case 1:
					add(Step{A: "SMPAnswer", P: p, S: 1})
				case 2:
					add(Step{A: "SMPAbort", P: p})
				default:
					add(Step{A: "ExtraKey", P: p})
				}
			default:
				add(Step{A: "Deliver", P: p})
			}
		}
		return sc
	case "rekey":
		// traffic that rotates keys and leaves MAC keys awaiting disclosure, then (with messages
		// possibly still in flight) the session is refreshed by a new key exchange; repeated
		sc.Setup = "ake"
		for d := 0; d < depth; d++ {
			n := 1 + rng.Intn(7)
			if d > 0 && rng.Intn(3) == 0 {
				n = 0 // nobody says anything between two key exchanges
			}
			for k := 0; k < n; k++ {
				p := ps[rng.Intn(2)]
				if rng.Intn(5) < 2 {
					text++
					add(Step{A: "Send", P: p, T: text})
				} else {
					add(Step{A: "Deliver", P: p})
				}
			}
			if rng.Intn(2) == 0 {
				for k := 0; k < 4; k++ {
					add(Step{A: "Deliver", P: "A"})
					add(Step{A: "Deliver", P: "B"})
				}
			}
			add(Step{A: "Tick", P: "A"})
			add(Step{A: "Tick", P: "B"})
			add(Step{A: "Query", P: ps[rng.Intn(2)]})
			for k := 0; k < 5; k++ {
				add(Step{A: "Deliver", P: "A"})
				add(Step{A: "Deliver", P: "B"})
			}
		}
		return sc
	case "lensweep":
		// ping-pong with text lengths swept across the padding boundaries (multiples of 256 minus the TLV
		// overhead) one by one
		sc.Setup, sc.Fam = "ake", "fifo-data"
		{
			base := []int{240, 496, 752, 1008}[genIdx%4]
			for d := 0; d < depth; d++ {
				add(Step{A: "Send", P: "A", T: 7000 + base + 2*d})
				add(Step{A: "Deliver", P: "B"})
				add(Step{A: "Deliver", P: "A"})
				add(Step{A: "Send", P: "B", T: 7000 + base + 2*d + 1})
				add(Step{A: "Deliver", P: "A"})
				add(Step{A: "Deliver", P: "B"})
			}
		}
		return sc
	case "pingpong":
		sc.Setup, sc.Fam = "ake", "fifo-data"
		for d := 0; d < depth; d++ {
			text++
			add(Step{A: "Send", P: "A", T: text})
			add(Step{A: "Deliver", P: "B"})
			add(Step{A: "Deliver", P: "A"})
			text++
			add(Step{A: "Send", P: "B", T: text})
			add(Step{A: "Deliver", P: "A"})
			add(Step{A: "Deliver", P: "B"})
		}
		return sc
	case "fragsweep":
		// ping-pong with the fragment size swept one by one, so that sizes whose payload
		// divides the encoded length (empty last piece) and all remainders occur
		sc.Setup, sc.Fam = "ake", "fifo-data"
		sc.Frag = map[string]int{}
		base := 38 + rng.Intn(400)
		for d := 0; d < depth; d++ {
			text++
			add(Step{A: "FragSize", P: "A", Z: base + 2*d})
			add(Step{A: "Send", P: "A", T: text})
			add(Step{A: "Deliver", P: "B"})
			add(Step{A: "Deliver", P: "A"})
			text++
			add(Step{A: "FragSize", P: "B", Z: base + 2*d + 1})
			add(Step{A: "Send", P: "B", T: text})
			add(Step{A: "Deliver", P: "A"})
			add(Step{A: "Deliver", P: "B"})
		}
		return sc
	case "oneway":
		sc.Setup, sc.Fam = "ake", "fifo-data"
		for d := 0; d < depth; d++ {
			text++
			add(Step{A: "Send", P: "A", T: text})
			add(Step{A: "Deliver", P: "B"})
			if rng.Intn(4) == 0 {
				add(Step{A: "Tick", P: "B"})
			}
			add(Step{A: "Deliver", P: "A"})
		}
		return sc
	case "dupend":
		// a start in which messages travel twice (both sides start at once; or two texts under required
		// encryption), one side ends the session the moment it has become encrypted, while the duplicates
		// are still on their way; whoever then starts again (no minute has passed) must get a session
		sc.Fam = "ake"
		sc.Frag = map[string]int{}
		v := genIdx
		sc.Pol["A"], sc.Pol["B"] = 3, 3
		if v%3 == 1 {
			sc.Pol["A"], sc.Pol["B"] = 1, 1
		}
		if (v/3)%2 == 0 {
			add(Step{A: "Query", P: "A"})
			add(Step{A: "Query", P: "B"})
		} else {
			sc.Pol["A"] |= 4
			sc.Pol["B"] |= 4
			add(Step{A: "Send", P: "A", T: 1})
			add(Step{A: "Send", P: "B", T: 2})
			if v%2 == 0 {
				add(Step{A: "Send", P: "A", T: 3})
			}
		}
		ender := ps[(v/6)%2]
		add(Step{A: "DrainUntilEnc", P: ender})
		add(Step{A: "End", P: ender})
		for k := 0; k < 10; k++ {
			add(Step{A: "Deliver", P: "A"})
			add(Step{A: "Deliver", P: "B"})
		}
		starter := ps[(v/12)%2]
		add(Step{A: "End", P: starter}) // the side that was told (or not yet) closes the ended session as a user would
		add(Step{A: "Deliver", P: "A"})
		add(Step{A: "Deliver", P: "B"})
		add(Step{A: "Query", P: starter})
		return sc
	case "akestart":
		sc.Fam = "ake"
		// a start pattern, then random deliveries; everything is drained at the end
		for k := 0; k < 1+rng.Intn(2); k++ {
			p := ps[rng.Intn(2)]
			switch rng.Intn(4) {
			case 0, 1:
				add(Step{A: "Query", P: p})
			case 2:
				text++
				add(Step{A: "Send", P: p, T: text})
			default:
				add(Step{A: "Err", P: p})
			}
		}
		for d := 0; d < depth; d++ {
			add(Step{A: "Deliver", P: ps[rng.Intn(2)]})
		}
		return sc
	}
	if family == "data" || family == "bag" || family == "bagsess" {
		sc.Setup = "ake"
		if family == "data" {
			sc.Fam = "fifo-data"
		}
	}
	for d := 0; d < depth; d++ {
		p := ps[rng.Intn(2)]
		r := rng.Intn(100)
		switch {
		case r < 35:
			text++
			add(Step{A: "Send", P: p, T: text})
		case r < 80:
			if (family == "bag" || family == "bagsess") && rng.Intn(3) == 0 {
				switch rng.Intn(3) {
				case 0:
					add(Step{A: "Dup", P: p})
				case 1:
					add(Step{A: "DeliverAt", P: p, I: rng.Intn(3)})
				default:
					add(Step{A: "ReplayAny", P: p, I: rng.Intn(1000)})
				}
			} else {
				add(Step{A: "Deliver", P: p})
			}
		case r < 85:
			add(Step{A: "Tick", P: p})
		case r < 88 && family != "life" && family != "errlife":
			add(Step{A: "ExtraKey", P: p})
		case r < 92 && (family == "life" || family == "errlife"):
			add(Step{A: "Query", P: p})
		case r < 95 && (family == "life" || family == "errlife"):
			add(Step{A: "End", P: p})
		case r < 97 && family == "errlife":
			add(Step{A: "Err", P: p})
		case r < 91 && family == "bagsess":
			add(Step{A: "End", P: p})
		case r < 94 && family == "bagsess":
			add(Step{A: "Tick", P: "A"})
			add(Step{A: "Tick", P: "B"})
			add(Step{A: "Query", P: p})
		default:
			add(Step{A: "Deliver", P: p})
		}
	}
	return sc
}

func run(cmd string, args []string) int {
	switch cmd {
	case "run":
		return cmdRun(args)
	case "gen":
		return cmdGen(args)
	case "attacks":
		return cmdAttacks(args)
	case "negotiate":
		return cmdNegotiate(args)
	case "fragcheck":
		return cmdFragCheck(args)
	case "sexpcheck":
		return cmdSexpCheck(args)
	case "codeccheck":
		return cmdCodecCheck(args)
	case "parsefuzz":
		return cmdParseFuzz(args)
	case "concurrent":
		return cmdConcurrent(args)
	}
	fmt.Fprintln(os.Stderr, "unknown command", cmd)
	return 2
}
