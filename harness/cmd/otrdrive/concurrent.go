package main

import (
	"bufio"
	"bytes"
	"encoding/json"
	"flag"
	"fmt"
	"os"
	"runtime"
	"sort"
	"sync"

	otr3 "github.com/coyim/otr3"
)

// normalise drops the fields of a trace event that depend on timing.
func normalise(trace []byte) []string {
	var out []string
	sc := bufio.NewScanner(bytes.NewReader(trace))
	sc.Buffer(make([]byte, 1<<20), 1<<26)
	for sc.Scan() {
		var m map[string]interface{}
		if json.Unmarshal(sc.Bytes(), &m) != nil {
			out = append(out, sc.Text())
			continue
		}
		delete(m, "ms")
		delete(m, "allock")
		b, _ := json.Marshal(m)
		out = append(out, string(b))
	}
	return out
}

func globalsDigest() []string {
	var out []string
	for _, g := range otr3.VerifGlobals() {
		out = append(out, fmt.Sprintf("%s len=%d cap=%d %x", g.Name, g.Len, g.Cap, g.Content))
	}
	sort.Strings(out)
	return out
}

// barrier releases its participants together; one that has finished leaves.
type barrier struct {
	mu            sync.Mutex
	cond          *sync.Cond
	n, count, gen int
}

func newBarrier(n int) *barrier {
	b := &barrier{n: n}
	b.cond = sync.NewCond(&b.mu)
	return b
}

func (b *barrier) await() {
	b.mu.Lock()
	defer b.mu.Unlock()
	gen := b.gen
	b.count++
	if b.count >= b.n {
		b.count = 0
		b.gen++
		b.cond.Broadcast()
		return
	}
	for gen == b.gen {
		b.cond.Wait()
	}
}

func (b *barrier) leave() {
	b.mu.Lock()
	defer b.mu.Unlock()
	b.n--
	if b.n > 0 && b.count >= b.n {
		b.count = 0
		b.gen++
		b.cond.Broadcast()
	}
}

// cmdConcurrent runs every schedule alone, then all of them at the same time on their own
// goroutines, and compares each pair's trace with the one it produced alone. Package-level slices
// must have no spare capacity (SharedAppend.tla) and must not change. Built with -race.
func cmdConcurrent(args []string) int {
	fs := flag.NewFlagSet("concurrent", flag.ExitOnError)
	sched := fs.String("sched", "", "schedules")
	out := fs.String("out", "", "concatenated traces of the concurrent runs")
	seed := fs.Uint64("seed", 1, "seed")
	rounds := fs.Int("rounds", 2, "how many times the concurrent run is repeated")
	fs.Parse(args)
	f, err := os.Open(*sched)
	if err != nil {
		fmt.Fprintln(os.Stderr, err)
		return 2
	}
	var scheds []Schedule
	sc := bufio.NewScanner(f)
	sc.Buffer(make([]byte, 1<<20), 1<<26)
	for sc.Scan() {
		var s Schedule
		if json.Unmarshal(sc.Bytes(), &s) == nil {
			scheds = append(scheds, s)
		}
	}
	f.Close()
	viol := 0
	report := func(s string) {
		viol++
		if viol <= 10 {
			fmt.Println("CONCVIOLATION " + s)
		}
	}
	before := globalsDigest()
	for _, g := range otr3.VerifGlobals() {
		if g.Cap != g.Len {
			report(fmt.Sprintf("package-level slice %s has len %d but cap %d: an append to it writes into memory shared by all conversations", g.Name, g.Len, g.Cap))
		}
	}
	runOne := func(i int, yield bool) []byte {
		s := scheds[i]
		sd := *seed + uint64(i)*7919
		if s.Seed != 0 {
			sd = s.Seed
		}
		tmp, _ := os.CreateTemp("", "verif-conc-")
		defer os.Remove(tmp.Name())
		w := newWorld(&s, sd, tmp)
		for k, st := range s.Steps {
			execStep(w, st)
			if yield && k%3 == 0 {
				runtime.Gosched()
			}
		}
		drain(w, 64)
		w.Done()
		w.Flush()
		tmp.Close()
		b, _ := os.ReadFile(tmp.Name())
		return b
	}
	alone := make([][]string, len(scheds))
	for i := range scheds {
		alone[i] = normalise(runOne(i, false))
	}
	of, _ := os.Create(*out)
	defer of.Close()
	events := 0
	for r := 0; r < *rounds; r++ {
		conc := make([][]byte, len(scheds))
		var wg sync.WaitGroup
		for i := range scheds {
			wg.Add(1)
			go func(i int) {
				defer wg.Done()
				conc[i] = runOne(i, true)
			}(i)
		}
		wg.Wait()
		for i := range scheds {
			got := normalise(conc[i])
			events += len(got)
			if len(got) != len(alone[i]) {
				report(fmt.Sprintf("schedule %s: %d events when run concurrently, %d alone", scheds[i].ID, len(got), len(alone[i])))
			} else {
				for k := range got {
					if got[k] != alone[i][k] {
						// show the part that differs
						d := 0
						for d < len(got[k]) && d < len(alone[i][k]) && got[k][d] == alone[i][k][d] {
							d++
						}
						if d > 60 {
							d -= 60
						} else {
							d = 0
						}
						report(fmt.Sprintf("schedule %s event %d differs between the concurrent run and the run alone: alone: ...%.200s | concurrent: ...%.200s", scheds[i].ID, k+1, alone[i][k][d:], got[k][d:]))
						break
					}
				}
			}
			if r == 0 {
				of.Write(conc[i])
			}
		}
	}
	// Lock-step phase.  Independent goroutines rarely sit in the same few lines of the library at the same
	// moment, and the race detector stays silent when some unrelated lock happens to order two accesses.  Here
	// several copies of one schedule (own seeds: own keys, secrets, texts) execute step k at the same time,
	// released together by a barrier: whatever two conversations share inside one call is then touched by all
	// of them without any ordering between them, so the race detector reports it on every run, and a value
	// handed from one call site to another through shared memory really gets mixed up (compared with the copy
	// run alone, validated by TLC).
	lsTraces := 0
	var bases []int
	nsmp := 0
	for i, s := range scheds {
		has := false
		for _, st := range s.Steps {
			if st.A == "SMPAnswer" {
				has = true
			}
		}
		if has && nsmp < 2 {
			bases = append(bases, i)
			nsmp++
		}
	}
	if len(scheds) > 0 {
		bases = append(bases, 0)
	}
	for _, bi := range bases {
		const copies = 6
		base := scheds[bi]
		run := func(j int, bar *barrier) []byte {
			s := base
			s.ID = fmt.Sprintf("%s-ls%d", base.ID, j)
			tmp, _ := os.CreateTemp("", "verif-conc-")
			defer os.Remove(tmp.Name())
			w := newWorld(&s, *seed+uint64(bi)*7919+uint64(j+1)*104729, tmp)
			for _, st := range s.Steps {
				if bar != nil {
					bar.await()
				}
				execStep(w, st)
			}
			if bar != nil {
				bar.leave()
			}
			drain(w, 64)
			w.Done()
			w.Flush()
			tmp.Close()
			b, _ := os.ReadFile(tmp.Name())
			return b
		}
		aloneLS := make([][]string, copies)
		for j := 0; j < copies; j++ {
			aloneLS[j] = normalise(run(j, nil))
		}
		bar := newBarrier(copies)
		got := make([][]byte, copies)
		var wg sync.WaitGroup
		for j := 0; j < copies; j++ {
			wg.Add(1)
			go func(j int) {
				defer wg.Done()
				got[j] = run(j, bar)
			}(j)
		}
		wg.Wait()
		for j := 0; j < copies; j++ {
			g := normalise(got[j])
			events += len(g)
			lsTraces++
			of.Write(got[j])
			if len(g) != len(aloneLS[j]) {
				report(fmt.Sprintf("schedule %s copy %d in lock-step: %d events, %d alone", base.ID, j, len(g), len(aloneLS[j])))
				continue
			}
			for k := range g {
				if g[k] != aloneLS[j][k] {
					report(fmt.Sprintf("schedule %s copy %d event %d differs between the lock-step run and the run alone: alone: %.300s | lock-step: %.300s", base.ID, j, k+1, aloneLS[j][k], g[k]))
					break
				}
			}
		}
	}
	after := globalsDigest()
	for i := range before {
		if before[i] != after[i] {
			report("a package-level slice changed: " + before[i] + " -> " + after[i])
		}
	}
	fmt.Printf("CONCURRENT pairs=%d rounds=%d lockstep=%d events=%d violations=%d\n", len(scheds), *rounds, lsTraces, events, viol)
	return 0
}
