package main

import (
	"crypto/sha256"

	"encoding/binary"
	"flag"
	"fmt"
	otr3 "github.com/coyim/otr3"
	"math/big"
	"math/rand"
	"os"

	"verif/harness/ref"
	"verif/harness/world"
)

// evil is the active attacker E: own DSA key, own DH exponents, messages built by package ref.
type evil struct {
	w   *world.World
	key *ref.DSAPriv
	rng *rand.Rand
	n   int
}

func newEvil(w *world.World, seed int64) *evil {
	_, k := world.DSAKey("E")
	return &evil{w: w, key: k, rng: rand.New(rand.NewSource(seed))}
}

func (e *evil) bytes(n int) []byte {
	b := make([]byte, n)
	e.rng.Read(b)
	return b
}

func (e *evil) secret() *world.Secret {
	return e.w.Reg.AddSecret("E", e.bytes(40), nil)
}

// lastOut returns the raw bytes of the k-th newest wire message (1 = newest) sent by party name.
func lastOut(w *world.World, from string, typ string) *world.WireMsg {
	for i := len(w.Wire) - 1; i >= 0; i-- {
		if w.Wire[i].From == from && (typ == "" || w.Wire[i].Abs["t"] == typ) {
			return w.Wire[i]
		}
	}
	return nil
}

func rawOf(wm *world.WireMsg) []byte {
	full, _ := ref.Reassemble(wm.Raw)
	raw, _ := ref.Dearmor(full)
	return raw
}

type akeOpts struct {
	version   int
	claim     string // long-term key placed inside the signature block: "E" or "B"
	swapSig   bool   // sign (g^other, g^own) instead of (g^own, g^other)
	degen     int    // index into degenerate() for the attacker's DH value, -1 = honest
	sGuess    int    // for p-1: which of the two possible shared secrets
	wrongKind bool   // use the Signature-message keys in a Reveal-Signature message
}

// sealFor builds the encrypted signature block of E for the DH pair (own, their) with the
// given key set.
func (e *evil) seal(k *ref.AKEKeys, reveal bool, gOwn, gTheir *big.Int, o akeOpts) (enc, mac []byte) {
	c, m1, m2 := k.C, k.M1, k.M2
	if !reveal {
		c, m1, m2 = k.Cp, k.M1p, k.M2p
	}
	pub := e.key.Pub().Bytes()
	if o.claim == "A" || o.claim == "B" {
		pub = e.w.Reg.DSA[o.claim].Bytes()
	}
	a, b := gOwn, gTheir
	if o.swapSig {
		a, b = b, a
	}
	sig, err := e.key.Sign(e.rng, ref.SigInput(m1, a, b, pub, 1))
	if err != nil {
		panic(err)
	}
	x := append(append(append([]byte{}, pub...), ref.PutWord(nil, 1)...), sig...)
	enc = ref.CTR(c, nil, x)
	mac = ref.HMAC256(m2, ref.PutData(nil, enc))[:20]
	return
}

// initiatorAttack: E sends DH-Commit, reads the victim's DH-Key, sends Reveal-Signature.
func (e *evil) initiatorAttack(victim string, o akeOpts, name string) {
	w := e.w
	p := w.P[victim]
	var st, rt uint32 = 0x0e0e0e0e, 0
	var gx *big.Int
	var xsec *world.Secret
	r := e.bytes(16)
	if o.degen >= 0 {
		gx = degenerate()[o.degen]
	} else {
		xsec = e.secret()
		xsec.R = r
		gx = xsec.Pub
	}
	mpi := ref.PutMPI(nil, gx)
	encgx := ref.CTR(r, nil, mpi)
	h := sha256.Sum256(mpi)
	if o.degen >= 0 {
		id := -2
		w.EvilCommits[string(encgx)] = id
		w.EvilRs[string(r)] = id
		w.EvilValues[id] = gx
	}
	commit := append(ref.BuildHeader(o.version, ref.TypeDHCommit, st, rt), (&ref.DHCommit{EncGx: encgx, HashGx: h[:]}).Bytes()...)
	w.ReceiveAttack(p, [][]byte{ref.Armor(commit)}, name+"/commit")
	dhk := lastOut(w, victim, "DHK")
	if dhk == nil {
		return
	}
	hk, _ := ref.ParseHeader(rawOf(dhk))
	k, err := ref.ParseDHKey(hk.Body)
	if err != nil {
		return
	}
	rt = hk.ST
	var s *big.Int
	if o.degen >= 0 {
		// the victim would compute gx^y mod p
		switch o.degen {
		case 0, 3:
			s = big.NewInt(0)
		case 1, 4:
			s = big.NewInt(1)
		default:
			s = big.NewInt(1)
			if o.sGuess == 1 {
				s = new(big.Int).Sub(ref.P, big.NewInt(1))
			}
		}
	} else {
		s = ref.Shared(k.Gy, xsec.X)
	}
	keys := ref.DeriveAKEKeys(s)
	enc, mac := e.seal(keys, !o.wrongKind, gx, k.Gy, o)
	rs := append(ref.BuildHeader(o.version, ref.TypeRevealSig, st, rt), (&ref.RevealSig{R: r, EncSig: enc, MAC: mac}).Bytes()...)
	w.ReceiveAttack(p, [][]byte{ref.Armor(rs)}, name+"/revealsig")
	if o.degen < 0 && o.claim == "E" && !o.swapSig && !o.wrongKind && p.Conv.IsEncrypted() {
		e.refPeer(victim, o.version, st, rt, xsec, k.Gy, name)
	}
}

// refPeer: E, now in a genuine session with the victim, speaks the data-message protocol with
// messages built by the independent reference only (no padding, TLVs in last position, ...), and
// the victim's replies are read back by the reference (via the decoder).
func (e *evil) refPeer(victim string, version int, st, rt uint32, cur *world.Secret, victimPub *big.Int, name string) {
	w := e.w
	p := w.P[victim]
	vsec := w.Reg.Secret(w.Reg.PubID(victimPub))
	if vsec == nil {
		return
	}
	next := e.secret()
	ctr := uint64(0)
	skid := uint32(1)
	send := func(label string, flag byte, plain []byte) {
		ctr++
		keys := ref.DeriveSessionKeys(cur.Pub, vsec.Pub, ref.Shared(vsec.Pub, cur.X))
		d := &ref.Data{Flag: flag, SKID: skid, RKID: 1, Y: next.Pub}
		binary.BigEndian.PutUint64(d.Ctr[:], ctr)
		d.Enc = ref.CTR(keys.SendAES, d.Ctr[:], plain)
		hdr := ref.BuildHeader(version, ref.TypeData, st, rt)
		d.MAC = ref.HMAC1(keys.SendMAC, hdr, d.Unsigned())
		w.ReceiveAttack(p, [][]byte{ref.Armor(append(hdr, d.Bytes()...))}, name+"/ref-data-"+label)
	}
	t1, t2, t3 := w.Text(8001), w.Text(8002), w.Text(8003)
	send("text-only", 0, t1)
	send("text-nul", 0, append(append([]byte{}, t2...), 0))
	pad := 256 - ((len(t3) + 5) % 256)
	send("text-padded", 0, ref.JoinPlain(t3, []ref.TLV{{Type: 0, Value: make([]byte, pad)}}))
	send("extra-key", 1, ref.JoinPlain(nil, []ref.TLV{{Type: 8, Value: []byte{0, 0, 0, 9, 'u', 's', 'e'}}}))
	send("unknown-tlv", 0, ref.JoinPlain(w.Text(8004), []ref.TLV{{Type: 0x7777, Value: []byte("future")}, {Type: 0, Value: nil}}))
	send("smp-abort-last", 1, ref.JoinPlain(nil, []ref.TLV{{Type: 6, Value: nil}}))
	// the victim answers; the decoder (reference) must be able to read it with E's keys
	w.Send(p, 8005)
	// records of a type this implementation does not know (another client's extension) in front of ones it
	// does know: every record of a message is looked at
	send("unknown-then-extra-key", 1, ref.JoinPlain(nil, []ref.TLV{{Type: 0x7777, Value: []byte("future")}, {Type: 9, Value: nil}, {Type: 8, Value: []byte{0, 0, 0, 9, 'u', 's', 'e'}}}))
	if int(ctr+uint64(version)+uint64(len(name)))%2 == 0 {
		send("disconnect-last", 1, ref.JoinPlain(nil, []ref.TLV{{Type: 1, Value: nil}}))
	} else {
		send("unknown-then-disconnect", 1, ref.JoinPlain(nil, []ref.TLV{{Type: 0x7777, Value: []byte("future")}, {Type: 1, Value: nil}}))
	}
	w.Send(p, 8006)
}

// responderAttack: E makes the victim start (query), answers its DH-Commit with a DH-Key and
// its Reveal-Signature with a Signature message.
func (e *evil) responderAttack(victim string, o akeOpts, name string) {
	w := e.w
	p := w.P[victim]
	q := "?OTRv23?"
	w.ReceiveAttack(p, [][]byte{[]byte(q)}, name+"/query")
	dhc := lastOut(w, victim, "DHC")
	if dhc == nil {
		return
	}
	hc, _ := ref.ParseHeader(rawOf(dhc))
	var st uint32 = 0x0e0e0e0e
	rt := hc.ST
	ysec := e.secret()
	dhk := append(ref.BuildHeader(hc.Version, ref.TypeDHKey, st, rt), (&ref.DHKey{Gy: ysec.Pub}).Bytes()...)
	w.ReceiveAttack(p, [][]byte{ref.Armor(dhk)}, name+"/dhkey")
	rsm := lastOut(w, victim, "RS")
	if rsm == nil {
		return
	}
	hr, _ := ref.ParseHeader(rawOf(rsm))
	rs, err := ref.ParseRevealSig(hr.Body)
	if err != nil {
		return
	}
	c, _ := ref.ParseDHCommit(hc.Body)
	gxm := ref.CTR(rs.R, nil, c.EncGx)
	if len(gxm) < 4 {
		return
	}
	gx := new(big.Int).SetBytes(gxm[4:])
	keys := ref.DeriveAKEKeys(ref.Shared(gx, ysec.X))
	enc, mac := e.seal(keys, o.wrongKind, ysec.Pub, gx, o)
	sig := append(ref.BuildHeader(hc.Version, ref.TypeSig, st, rt), (&ref.Sig{EncSig: enc, MAC: mac}).Bytes()...)
	w.ReceiveAttack(p, [][]byte{ref.Armor(sig)}, name+"/sig")
}

func polFor(version int) int {
	if version == 2 {
		return 1
	}
	return 3
}

func freshWorld(seed uint64, of *os.File, version int, fam string) *world.World {
	sc := &Schedule{Pol: map[string]int{"A": polFor(version), "B": polFor(version)}, Ver: map[string]int{}, Fam: fam}
	if of == nil {
		w := world.New(seed, nil)
		for _, n := range []string{"A", "B"} {
			peer := "B"
			if n == "B" {
				peer = "A"
			}
			w.AddParty(n, peer, world.PolicyFromBits(sc.Pol[n]), 0)
		}
		return w
	}
	return newWorld(sc, seed, of)
}

// probe: after an attack the genuine parties must still be able to do what the specification says
// (a handshake and one text each way); everything is validated by the trace specification.
func probe(w *world.World) {
	w.Tick(w.P["A"])
	w.Tick(w.P["B"])
	w.Query(w.P["B"])
	drain(w, 30)
	w.Send(w.P["A"], 9001)
	w.Send(w.P["B"], 9002)
	drain(w, 10)
}

func cmdAttacks(args []string) int {
	fs := flag.NewFlagSet("attacks", flag.ExitOnError)
	out := fs.String("out", "", "trace output")
	seed := fs.Uint64("seed", 1, "seed")
	kind := fs.String("kind", "ake", "ake|data")
	deep := fs.Bool("deep", false, "more repetitions")
	fs.Parse(args)
	of, err := os.Create(*out)
	if err != nil {
		fmt.Fprintln(os.Stderr, err)
		return 2
	}
	defer of.Close()
	runs, events := 0, 0
	finish := func(w *world.World) {
		w.Done()
		w.Flush()
		runs++
		events += w.N
		if len(w.Panics) > 0 {
			fmt.Printf("PANIC attack %s\n", firstLines(w.Panics[0], 1))
		}
	}
	reps := 1
	if *deep {
		reps = 4
	}
	for rep := 0; rep < reps; rep++ {
		sd := *seed*7777 + uint64(rep)*131
		if *kind == "ake" {
			for _, version := range []int{3, 2} {
				// victim states: fresh, and already encrypted with B (refresh attempt by E)
				for _, pre := range []string{"fresh", "encrypted"} {
					opts := []struct {
						name string
						o    akeOpts
					}{
						{"honestE", akeOpts{claim: "E", degen: -1}},
						{"claimB", akeOpts{claim: "B", degen: -1}},
						{"swapped", akeOpts{claim: "E", degen: -1, swapSig: true}},
						{"wrongkeys", akeOpts{claim: "E", degen: -1, wrongKind: true}},
					}
					for d := 0; d < 5; d++ {
						opts = append(opts, struct {
							name string
							o    akeOpts
						}{fmt.Sprintf("degenerate%d", d), akeOpts{claim: "E", degen: d}})
					}
					opts = append(opts, struct {
						name string
						o    akeOpts
					}{"degenerate2b", akeOpts{claim: "E", degen: 2, sGuess: 1}})
					for _, role := range []string{"initiator", "responder"} {
						for _, op := range opts {
							if role == "responder" && op.o.degen >= 0 {
								continue // degenerate DH-Key values are covered by the tamper family
							}
							w := freshWorld(sd, of, version, "none")
							if pre == "encrypted" {
								w.Handshake("A")
								w.Tick(w.P["A"])
							}
							e := newEvil(w, int64(sd)+int64(len(op.name)))
							o := op.o
							o.version = version
							name := fmt.Sprintf("%s-%s-%s-v%d", role, op.name, pre, version)
							if role == "initiator" {
								e.initiatorAttack("A", o, name)
							} else {
								e.responderAttack("A", o, name)
							}
							if op.name != "honestE" {
								probe(w)
							}
							finish(w)
						}
					}
				}
				// cross-session replay of the genuine peer's handshake messages, both roles
				for _, init := range []string{"A", "B"} {
					w := freshWorld(sd, of, version, "none")
					w.Handshake(init)
					w.Send(w.P["A"], 1)
					w.Send(w.P["B"], 2)
					drain(w, 10)
					recorded := append([]*world.WireMsg{}, w.Wire...)
					w.End(w.P["A"])
					w.End(w.P["B"])
					drain(w, 10)
					// every recorded message of B is replayed to A, in order, as a new "exchange";
					// A's own replies go nowhere
					if init == "A" {
						w.ReceiveAttack(w.P["A"], [][]byte{[]byte("?OTRv23?")}, "replay/query")
					}
					for _, m := range recorded {
						if m.From == "B" && m.Abs["t"] != "Q" {
							w.ReceiveAttack(w.P["A"], m.Raw, "replay/"+fmt.Sprint(m.Abs["t"]))
						}
					}
					probe(w)
					finish(w)
				}
				// within one session: the recorded key-exchange messages of the peer arrive again, each
				// once, twice and three times in a row (a DH-Commit opens an exchange that nobody continues);
				// the running session must not be touched and traffic goes on in both directions
				for _, init := range []string{"A", "B"} {
					for _, times := range []int{1, 2, 3} {
						w := freshWorld(sd, of, version, "none")
						w.Handshake(init)
						w.Send(w.P["A"], 1)
						w.Send(w.P["B"], 2)
						drain(w, 10)
						recorded := append([]*world.WireMsg{}, w.Wire...)
						for _, m := range recorded {
							t := fmt.Sprint(m.Abs["t"])
							if t != "DHC" && t != "DHK" && t != "RS" && t != "SIG" {
								continue
							}
							for k := 0; k < times; k++ {
								w.ReceiveAttack(w.P[m.To], m.Raw, fmt.Sprintf("again%d/%s", times, t))
							}
							w.Send(w.P["A"], 10+len(w.Wire))
							w.Send(w.P["B"], 11+len(w.Wire))
							// the victim's replies to the stale messages go nowhere; only the texts are delivered
							for _, p := range []string{"A", "B"} {
								q := w.P[p].Queue[:0]
								for _, x := range w.P[p].Queue {
									if x.Abs["t"] == "D" {
										q = append(q, x)
									}
								}
								w.P[p].Queue = q
							}
							drain(w, 10)
						}
						finish(w)
					}
				}
				// reflection of A's own messages
				w := freshWorld(sd, of, version, "none")
				w.ReceiveAttack(w.P["A"], [][]byte{[]byte("?OTRv23?")}, "reflect/query")
				for i := 0; i < 6; i++ {
					m := lastOut(w, "A", "")
					if m == nil {
						break
					}
					w.ReceiveAttack(w.P["A"], m.Raw, "reflect/"+fmt.Sprint(m.Abs["t"]))
				}
				finish(w)
			}
		} else if *kind == "relay" {
			// a relay E sits between two separately keyed sessions A<->E and E<->B and passes the
			// SMP payloads through verbatim: SMP must never report success, even with equal secrets
			for _, version := range []int{3, 2} {
				for _, secrets := range [][2]int{{5, 5}, {5, 6}, {1, 1}} {
					for _, starter := range []string{"A", "B"} {
						relayRun(sd, of, version, secrets, starter)
						runs++
					}
				}
			}
		} else if *kind == "tags" {
			// own instance tag generation for every kind of randomness output: values below
			// 0x100 must be skipped
			for _, seq := range [][][]byte{
				{{0, 0, 0, 0}, {0, 0, 0, 1}, {0, 0, 0, 0xff}, {0, 0, 1, 0}},
				{{0, 0, 0, 0xff}, {0xff, 0xff, 0xff, 0xff}},
				{{0, 0, 1, 0}},
				{{0, 0, 0, 0}, {0, 0, 0, 0}, {0, 0, 0, 0}, {0x12, 0x34, 0x56, 0x78}},
				{{0, 0, 0, 9}, {0, 0, 0, 8}, {0, 0, 0, 7}, {0, 0, 0, 6}, {0, 0, 0, 5}, {0, 0, 0, 4}, {0, 0, 0, 3}, {0, 0, 0, 2}, {0, 0, 0, 1}, {0, 0, 0, 0},
					{0, 0, 0, 0xfe}, {0, 0, 0, 0xfd}, {0x80, 0, 0, 0}},
			} {
				w := freshWorld(sd, of, 3, "ake")
				w.P["A"].Rand.TagOverride = seq
				w.P["B"].Rand.TagOverride = [][]byte{{0, 0, 0, 0x42}, {0, 0, 0, 0}, {0, 0, 2, 7}}
				w.Handshake("A")
				w.Send(w.P["A"], 1)
				w.Send(w.P["B"], 2)
				drain(w, 10)
				finish(w)
			}
			// hostile first: messages from a foreign instance arrive before the genuine peer's
			for _, version := range []int{3} {
				w := freshWorld(sd, of, version, "none")
				e := newEvil(w, int64(sd))
				o := akeOpts{claim: "E", degen: -1, version: 3}
				e.initiatorAttack("A", o, "foreign-first")
				// now the genuine peer tries
				w.Tick(w.P["A"])
				w.Query(w.P["B"])
				drain(w, 30)
				finish(w)
			}
		} else {
			for _, version := range []int{3, 2} {
				w := freshWorld(sd, of, version, "none")
				w.Handshake("A")
				rng := rand.New(rand.NewSource(int64(sd)))
				text := 0
				for round := 0; round < 6; round++ {
					// some traffic with overlap so that keys retire at different moments
					for k := 0; k < 1+rng.Intn(3); k++ {
						text++
						w.Send(w.P["A"], text)
					}
					for k := 0; k < rng.Intn(2); k++ {
						text++
						w.Send(w.P["B"], text)
					}
					held := []*world.WireMsg{}
					if len(w.P["B"].Queue) > 1 && rng.Intn(2) == 0 {
						// hold one message back (still in flight) while the rest is delivered
						held = append(held, w.P["B"].Queue[len(w.P["B"].Queue)-1])
						w.P["B"].Queue = w.P["B"].Queue[:len(w.P["B"].Queue)-1]
					}
					drain(w, 20)
					text++
					w.Send(w.P["B"], text)
					drain(w, 20)
					text++
					w.Send(w.P["A"], text)
					// forgeries with every MAC key disclosed so far, against every earlier message
					forgeWithDisclosed(w, rng)
					for _, h := range held {
						forgeCopy(w, h, rng)
						w.P["B"].Queue = append(w.P["B"].Queue, h)
					}
					drain(w, 20)
					// reflection
					if m := lastOut(w, "A", "D"); m != nil {
						w.ReceiveAttack(w.P["A"], m.Raw, "reflect/D")
					}
				}
				finish(w)
			}
		}
	}
	fmt.Printf("RUN schedules=%d events=%d\n", runs, events)
	return 0
}

// forgeWithDisclosed: for every data message seen so far and every MAC key disclosed on the
// wire so far, build a copy with altered ciphertext authenticated with that key.
func forgeWithDisclosed(w *world.World, rng *rand.Rand) {
	var keys [][]byte
	for _, m := range w.Wire {
		if m.Abs["t"] != "D" {
			continue
		}
		h, err := ref.ParseHeader(rawOf(m))
		if err != nil {
			continue
		}
		d, err := ref.ParseData(h.Body)
		if err != nil {
			continue
		}
		for i := 0; i+20 <= len(d.OldMACs); i += 20 {
			keys = append(keys, d.OldMACs[i:i+20])
		}
	}
	if len(keys) == 0 {
		return
	}
	n := 0
	for _, m := range w.Wire {
		if m.Abs["t"] != "D" || m.From == "E" || n > 60 {
			continue
		}
		raw := rawOf(m)
		h, err := ref.ParseHeader(raw)
		if err != nil {
			continue
		}
		d, err := ref.ParseData(h.Body)
		if err != nil || len(d.Enc) == 0 {
			continue
		}
		for _, k := range keys {
			// only keys that verify this message are interesting: the others are random noise
			if !bytesEqual(ref.HMAC1(k, h.HdrBytes, d.AuthPart), d.MAC) {
				continue
			}
			d2, _ := ref.ParseData(append([]byte{}, h.Body...))
			d2.Enc = append([]byte{}, d.Enc...)
			d2.Enc[rng.Intn(len(d2.Enc))] ^= 0x20
			// a counter beyond anything the genuine sender has used under this key pair
			binary.BigEndian.PutUint64(d2.Ctr[:], binary.BigEndian.Uint64(d2.Ctr[:])+1000)
			d2.MAC = ref.HMAC1(k, h.HdrBytes, d2.Unsigned())
			forged := ref.Armor(append(append([]byte{}, h.HdrBytes...), d2.Bytes()...))
			w.ReceiveAttack(w.P[m.To], [][]byte{forged}, "forged-with-disclosed-key")
			n++
		}
	}
}

// forgeCopy: a message still in flight is altered and re-authenticated with each disclosed key.
func forgeCopy(w *world.World, m *world.WireMsg, rng *rand.Rand) {
	forgeWithDisclosed(w, rng)
}

func bytesEqual(a, b []byte) bool {
	if len(a) != len(b) {
		return false
	}
	for i := range a {
		if a[i] != b[i] {
			return false
		}
	}
	return true
}

// relayRun: parties A (peer C), C and D (both run by E with E's key), B (peer D).
func relayRun(seed uint64, of *os.File, version int, secrets [2]int, starter string) {
	w := world.New(seed, of)
	pol := world.PolicyFromBits(polFor(version))
	w.AddParty("A", "C", pol, 0)
	w.AddParty("B", "D", pol, 0)
	w.AddPartyKey("C", "A", pol, 0, "E").Mute = true
	w.AddPartyKey("D", "B", pol, 0, "E").Mute = true
	w.InitFam("relay")
	pump := func(x, y string) {
		for i := 0; i < 20 && (len(w.P[x].Queue) > 0 || len(w.P[y].Queue) > 0); i++ {
			if len(w.P[y].Queue) > 0 {
				w.Deliver(w.P[y])
			}
			if len(w.P[x].Queue) > 0 {
				w.Deliver(w.P[x])
			}
		}
	}
	w.Query(w.P["A"])
	pump("A", "C")
	w.Query(w.P["D"])
	pump("D", "B")
	// relay moves every SMP-carrying message waiting at one of E's endpoints to the other session
	text := 100
	relay := func(at, via, to string) bool {
		moved := false
		for len(w.P[at].Queue) > 0 {
			m := w.P[at].Queue[0]
			w.P[at].Queue = w.P[at].Queue[1:]
			tl, _ := m.Abs["tlvs"].([]int)
			if m.Abs["t"] != "D" || len(tl) == 0 {
				continue
			}
			mac, _ := m.Abs["mac"].([]int)
			if len(mac) != 2 || mac[0] <= 0 {
				continue
			}
			raw := rawOf(m)
			h, _ := ref.ParseHeader(raw)
			d, err := ref.ParseData(h.Body)
			if err != nil {
				continue
			}
			keys := w.Reg.Sess(w.Reg.Secret(mac[0]), w.Reg.Secret(mac[1]))
			_, tlvs, _ := ref.SplitPlain(ref.CTR(keys.SendAES, d.Ctr[:], d.Enc))
			var smp []ref.TLV
			for _, t := range tlvs {
				if t.Type >= 2 && t.Type <= 7 {
					smp = append(smp, t)
				}
			}
			if len(smp) == 0 {
				continue
			}
			// a carrier message of E's other endpoint, content replaced
			text++
			n := len(w.P[to].Queue)
			w.Send(w.P[via], text)
			if len(w.P[to].Queue) != n+1 {
				continue
			}
			carrier := w.P[to].Queue[n]
			w.P[to].Queue = w.P[to].Queue[:n]
			craw := rawOf(carrier)
			ch, _ := ref.ParseHeader(craw)
			cd, err := ref.ParseData(ch.Body)
			cmac, _ := carrier.Abs["mac"].([]int)
			if err != nil || len(cmac) != 2 || cmac[0] <= 0 {
				continue
			}
			ckeys := w.Reg.Sess(w.Reg.Secret(cmac[0]), w.Reg.Secret(cmac[1]))
			cd.Flag = 1
			cd.Enc = ref.CTR(ckeys.SendAES, cd.Ctr[:], ref.JoinPlain(nil, smp))
			cd.MAC = ref.HMAC1(ckeys.SendMAC, ch.HdrBytes, cd.Unsigned())
			// the relayed payload still is what its original author bound
			src := w.P[m.From]
			w.P[via].SMPTerm, w.P[via].SMPRun = src.SMPTerm, src.SMPRun
			w.InjectRaw(w.P[to], ref.Armor(append(append([]byte{}, ch.HdrBytes...), cd.Bytes()...)))
			moved = true
		}
		return moved
	}
	ini, oth := w.P["A"], w.P["B"]
	s1, s2 := secrets[0], secrets[1]
	if starter == "B" {
		ini, oth = oth, ini
	}
	w.SMPStart(ini, secretBytes(s1), "", s1)
	answered := false
	for round := 0; round < 8; round++ {
		a := relay("C", "D", "B")
		for len(w.P["B"].Queue) > 0 {
			w.Deliver(w.P["B"])
		}
		if !answered && otrSMPWaiting(oth) {
			w.SMPAnswer(oth, secretBytes(s2), s2)
			answered = true
		}
		b := relay("D", "C", "A")
		for len(w.P["A"].Queue) > 0 {
			w.Deliver(w.P["A"])
		}
		if !answered && otrSMPWaiting(oth) {
			w.SMPAnswer(oth, secretBytes(s2), s2)
			answered = true
		}
		if !a && !b && len(w.P["C"].Queue) == 0 && len(w.P["D"].Queue) == 0 {
			break
		}
	}
	w.Done()
	w.Flush()
	if len(w.Panics) > 0 {
		fmt.Printf("PANIC relay %s\n", firstLines(w.Panics[0], 1))
	}
}

func otrSMPWaiting(p *world.Party) bool {
	return otr3.VerifProject(p.Conv).SMPState == "waiting"
}
