package main

import (
	"math/big"
	"bytes"
	"flag"
	"fmt"
	"math/rand"
	"os"
	"os/exec"
	"runtime"
	"strconv"
	"strings"
	"time"

	otr3 "github.com/coyim/otr3"

	"verif/harness/ref"
	"verif/harness/world"
)

// The public parsing entry points, each fed with one input.
var parseTargets = []struct {
	name string
	f    func(b []byte)
}{
	{"ExtractInstanceTags", func(b []byte) { otr3.ExtractInstanceTags(b) }},
	{"ExtractMPIs", func(b []byte) { otr3.ExtractMPIs(b) }},
	{"ExtractMPI", func(b []byte) { otr3.ExtractMPI(b) }},
	{"ExtractData", func(b []byte) { otr3.ExtractData(b) }},
	{"ParsePublicKey", func(b []byte) { otr3.ParsePublicKey(b) }},
	{"ParsePrivateKey", func(b []byte) { otr3.ParsePrivateKey(b) }},
	{"ImportKeys", func(b []byte) { otr3.ImportKeys(bytes.NewReader(b)) }},
	{"Receive-fresh", func(b []byte) {
		c := &otr3.Conversation{}
		c.Policies.AllowV2()
		c.Policies.AllowV3()
		c.Receive(b)
	}},
	// a conversation that already speaks a version (fragments are collected only then)
	{"Receive-v3", func(b []byte) {
		c := otr3.NewConversationWithVersion(3)
		c.Policies.AllowV3()
		c.Receive(b)
	}},
	{"Receive-v2", func(b []byte) {
		c := otr3.NewConversationWithVersion(2)
		c.Policies.AllowV2()
		c.Receive(b)
	}},
}

// inputs enumerates the input space of one target: all short strings over a small alphabet, plus
// structured seeds with every truncation and with single-position edits.
func fuzzInputs(target string, rng *rand.Rand, deep bool) [][]byte {
	var out [][]byte
	var alpha []byte
	var maxLen int
	switch target {
	case "ImportKeys":
		alpha, maxLen = []byte("()\"#a0 \n"), 5
	case "ExtractInstanceTags", "Receive-fresh", "Receive-v3", "Receive-v2":
		alpha, maxLen = []byte("?OTR:|,.A=0"), 4
	default:
		alpha, maxLen = []byte{0, 1, 2, 255}, 6
	}
	if deep {
		maxLen++
	}
	var rec func(prefix []byte)
	rec = func(prefix []byte) {
		out = append(out, append([]byte{}, prefix...))
		if len(prefix) == maxLen {
			return
		}
		for _, a := range alpha {
			rec(append(prefix, a))
		}
	}
	rec(nil)
	// structured seeds
	var seeds [][]byte
	priv, rpriv := world.DSAKey("A")
	switch target {
	case "ImportKeys":
		seeds = append(seeds, []byte(fmt.Sprintf("(privkeys\n (account\n(name \"a@b\")\n(protocol prpl-jabber)\n(private-key \n (dsa \n  (p #%X#)\n  (q #%X#)\n  (g #%X#)\n  (y #%X#)\n  (x #%X#)\n  )\n )\n )\n)\n", priv.PrivateKey.P, priv.PrivateKey.Q, priv.PrivateKey.G, priv.PrivateKey.Y, priv.PrivateKey.X)),
			[]byte("(privkeys (account (name x) (protocol y) (private-key (dsa (p #01#) (q #02#)))))"), []byte("(privkeys ("), []byte("(privkeys (account (name \"unterminated"))
		// every number of the key in turn zero, empty, and one
		for i := 0; i < 5; i++ {
			for _, z := range []string{"#00#", "##", "#01#", "#0#"} {
				f := []string{fmt.Sprintf("#%X#", priv.PrivateKey.P), fmt.Sprintf("#%X#", priv.PrivateKey.Q), fmt.Sprintf("#%X#", priv.PrivateKey.G), fmt.Sprintf("#%X#", priv.PrivateKey.Y), fmt.Sprintf("#%X#", priv.PrivateKey.X)}
				f[i] = z
				seeds = append(seeds, []byte(fmt.Sprintf("(privkeys (account (name \"a@b\") (protocol prpl-jabber) (private-key (dsa (p %s) (q %s) (g %s) (y %s) (x %s)))))", f[0], f[1], f[2], f[3], f[4])))
			}
		}
	case "ParsePublicKey":
		seeds = append(seeds, rpriv.Pub().Bytes())
		for i := 0; i < 4; i++ {
			for _, z := range []*big.Int{big.NewInt(0), big.NewInt(1)} {
				f := []*big.Int{priv.PrivateKey.P, priv.PrivateKey.Q, priv.PrivateKey.G, priv.PrivateKey.Y}
				f[i] = z
				seeds = append(seeds, ref.PutMPI(ref.PutMPI(ref.PutMPI(ref.PutMPI([]byte{0, 0}, f[0]), f[1]), f[2]), f[3]))
			}
		}
	case "ParsePrivateKey":
		seeds = append(seeds, priv.Serialize())
		// every number of the key in turn zero (an integer of length zero on the wire) and one
		for i := 0; i < 5; i++ {
			for _, z := range []*big.Int{big.NewInt(0), big.NewInt(1)} {
				f := []*big.Int{priv.PrivateKey.P, priv.PrivateKey.Q, priv.PrivateKey.G, priv.PrivateKey.Y, priv.PrivateKey.X}
				f[i] = z
				seeds = append(seeds, ref.PutMPI(ref.PutMPI(ref.PutMPI(ref.PutMPI(ref.PutMPI([]byte{0, 0}, f[0]), f[1]), f[2]), f[3]), f[4]))
			}
		}
	case "ExtractMPIs":
		seeds = append(seeds, ref.PutMPI(ref.PutMPI(ref.PutWord(nil, 2), ref.P), ref.Q), ref.PutWord(nil, 0x10000000), ref.PutWord(nil, 0xffffffff))
	case "ExtractMPI", "ExtractData":
		seeds = append(seeds, ref.PutMPI(nil, ref.P), ref.PutWord(nil, 0xffffffff), ref.PutWord(nil, 0x7fffffff))
	case "ExtractInstanceTags", "Receive-fresh", "Receive-v3", "Receive-v2":
		hdr := ref.BuildHeader(3, ref.TypeDHKey, 0x12345678, 0x9abcdef0)
		seeds = append(seeds, ref.Armor(append(hdr, ref.PutMPI(nil, ref.Q)...)), []byte("?OTR|12345678|9abcdef0,00001,00002,AAAA,"), []byte("?OTR:"), []byte("?OTR:."), []byte("?OTR:AAMK"), []byte("?OTR,1,2,x,"), []byte("?OTRv23?"), []byte("?OTR Error: x"),
			// complete one-piece fragments whose payload again begins like a fragment, a query, an encoded message
			[]byte("?OTR|12345678|9abcdef0,00001,00001,?OTR|00,"), []byte("?OTR|12345678|00000000,00001,00001,?OTR|12345678|9abcdef0,"),
			[]byte("?OTR,00001,00001,?OTR|00,"), []byte("?OTR,00001,00001,?OTR|12345678|9abcdef0,"), []byte("?OTR|12345678|00000000,00001,00001,?OTRv23?,"),
			[]byte("?OTR,00001,00001,?OTR:AAMK,"), []byte("?OTR|12345678|00000000,00001,00001,,"), []byte("?OTR,00002,00002,x,"), []byte("?OTR|12345678|00000000,65535,65535,x,"))
		// the first of very many announced pieces, each with a payload of some size: what is set aside for the
		// pieces that have not come must not depend on the announcement
		for _, n := range []int{300, 1000, 4000} {
			pay := strings.Repeat("QUJD", n/4)
			seeds = append(seeds, []byte("?OTR|12345678|00000000,00001,65535,"+pay+","), []byte("?OTR,00001,65535,"+pay+","), []byte("?OTR|12345678|00000000,00001,09999,"+pay+","))
		}
	}
	for _, s := range seeds {
		out = append(out, s)
		step := 1
		if !deep && len(s) > 400 {
			step = len(s) / 200
		}
		for k := 0; k < len(s); k += step {
			out = append(out, append([]byte{}, s[:k]...))
			b := append([]byte{}, s...)
			b[k] ^= byte(1 << uint(rng.Intn(8)))
			out = append(out, b)
			b2 := append([]byte{}, s...)
			b2[k] = alpha[rng.Intn(len(alpha))]
			out = append(out, b2)
		}
	}
	return out
}

// cmdParseFuzz is the parent: one child process per target (a fatal runtime error, a stack
// overflow or an endless loop is attributed to the input the child was working on).
func cmdParseFuzz(args []string) int {
	fs := flag.NewFlagSet("parsefuzz", flag.ExitOnError)
	child := fs.String("child", "", "(internal) run this target")
	deep := fs.Bool("deep", false, "longer enumerations")
	seed := fs.Int64("seed", 1, "seed")
	fs.Parse(args)
	if *child != "" {
		return parseFuzzChild(*child, *deep, *seed)
	}
	total, viol := 0, 0
	for _, t := range parseTargets {
		journal, _ := os.CreateTemp("", "verif-fuzz-")
		journal.Close()
		defer os.Remove(journal.Name())
		a := []string{"parsefuzz", "-child", t.name, "-seed", strconv.FormatInt(*seed, 10)}
		if *deep {
			a = append(a, "-deep")
		}
		cmd := exec.Command(os.Args[0], a...)
		cmd.Env = append(os.Environ(), "VERIF_FUZZ_JOURNAL="+journal.Name(), "GOMEMLIMIT=2GiB")
		var so bytes.Buffer
		cmd.Stdout = &so
		cmd.Stderr = nil
		done := make(chan error, 1)
		cmd.Start()
		go func() { done <- cmd.Wait() }()
		var err error
		timedOut := false
		select {
		case err = <-done:
		case <-time.After(600 * time.Second):
			cmd.Process.Kill()
			timedOut = true
			err = <-done
		}
		last, _ := os.ReadFile(journal.Name())
		for _, line := range strings.Split(so.String(), "\n") {
			if strings.HasPrefix(line, "FUZZVIOLATION") {
				viol++
				if viol <= 10 {
					fmt.Println(line)
				}
			}
			if strings.HasPrefix(line, "FUZZDONE") {
				n, _ := strconv.Atoi(strings.Fields(line)[2])
				total += n
			}
		}
		if err != nil || timedOut {
			viol++
			fmt.Printf("FUZZVIOLATION %s the process died or hung (%v, timeout=%v) while parsing the input (hex) %x\n", t.name, err, timedOut, last)
		}
	}
	fmt.Printf("PARSEFUZZ inputs=%d violations=%d\n", total, viol)
	return 0
}

func parseFuzzChild(target string, deep bool, seed int64) int {
	journal := os.Getenv("VERIF_FUZZ_JOURNAL")
	rng := rand.New(rand.NewSource(seed))
	for _, t := range parseTargets {
		if t.name != target {
			continue
		}
		ins := fuzzInputs(target, rng, deep)
		for _, in := range ins {
			if journal != "" {
				os.WriteFile(journal, in, 0600)
			}
			var m0, m1 runtime.MemStats
			runtime.ReadMemStats(&m0)
			t0 := time.Now()
			func() {
				defer func() {
					if r := recover(); r != nil {
						fmt.Printf("FUZZVIOLATION %s panics on input (hex) %x: %v\n", target, in, r)
					}
				}()
				// a watchdog inside the child: a call that does not return within 20 s is a hang
				fin := make(chan bool, 1)
				go func() {
					select {
					case <-fin:
					case <-time.After(20 * time.Second):
						fmt.Printf("FUZZVIOLATION %s does not return on input (hex) %x\n", target, in)
						os.Exit(3)
					}
				}()
				t.f(in)
				fin <- true
			}()
			runtime.ReadMemStats(&m1)
			if d := m1.TotalAlloc - m0.TotalAlloc; d > 8<<20+uint64(len(in))*4096 {
				fmt.Printf("FUZZVIOLATION %s allocates %d bytes for an input of %d bytes (hex %x)\n", target, d, len(in), in[:min(len(in), 40)])
			}
			if el := time.Since(t0); el > 3*time.Second {
				fmt.Printf("FUZZVIOLATION %s takes %v on an input of %d bytes\n", target, el, len(in))
			}
		}
		fmt.Printf("FUZZDONE %s %d\n", target, len(ins))
	}
	return 0
}
