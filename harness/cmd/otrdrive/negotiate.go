package main

import (
	"flag"
	"fmt"
	"math/rand"
	"os"

	"verif/harness/ref"
	"verif/harness/world"
)

// cmdNegotiate enumerates policy pairs x offer forms (C16) and records the traces.
func cmdNegotiate(args []string) int {
	fs := flag.NewFlagSet("negotiate", flag.ExitOnError)
	out := fs.String("out", "", "trace output")
	seed := fs.Uint64("seed", 1, "seed")
	shard := fs.Int("shard", 0, "shard index")
	shards := fs.Int("shards", 1, "number of shards")
	sample := fs.Int("sample", 0, "if > 0: number of policy pairs sampled (else all 4096)")
	fs.Parse(args)
	of, err := os.Create(*out)
	if err != nil {
		fmt.Fprintln(os.Stderr, err)
		return 2
	}
	defer of.Close()
	rng := rand.New(rand.NewSource(int64(*seed)))
	type pair struct{ a, b int }
	var pairs []pair
	for a := 0; a < 64; a++ {
		for b := 0; b < 64; b++ {
			pairs = append(pairs, pair{a, b})
		}
	}
	if *sample > 0 {
		// always keep all 16 version combinations with the other bits random
		var sel []pair
		for va := 0; va < 4; va++ {
			for vb := 0; vb < 4; vb++ {
				sel = append(sel, pair{va | rng.Intn(16)<<2, vb | rng.Intn(16)<<2})
			}
		}
		for len(sel) < *sample {
			sel = append(sel, pairs[rng.Intn(len(pairs))])
		}
		pairs = sel
	}
	offers := []string{"?OTR?", "?OTRv2?", "?OTRv3?", "?OTRv23?", "?OTR?v2?", "?OTR?v23?", "?OTRv4?", "?OTRv?", "?OTRv1?", "?OTRv234x?", "?OTRv32?", "?OTR?v?",
		// the offer ends at the first '?' after the version list: digits and '?' in the text that follows are not versions
		"?OTRv2? do you speak 3?", "?OTRv3? or only 2?", "?OTR?v3? 2?", "?OTRv2?\n<b>see otr 3</b>?", "?OTRv? 23?", "?OTR? v23?", "?OTRv2? 3"}
	tags := [][]byte{
		[]byte(" \t  \t\t\t\t \t \t \t  "),
		[]byte(" \t  \t\t\t\t \t \t \t    \t\t  \t "),
		[]byte(" \t  \t\t\t\t \t \t \t    \t\t  \t\t"),
		[]byte(" \t  \t\t\t\t \t \t \t    \t\t  \t   \t\t  \t\t"),
		[]byte(" \t  \t\t\t\t \t \t \t    \t\t  \t\t  \t\t  \t "),
		[]byte(" \t  \t\t\t\t \t \t \t    \t\t \t  "),
	}
	runs, events := 0, 0
	textGen := func(w *world.World) {
		r := rand.New(rand.NewSource(int64(w.Seed)))
		w.TextGen = func(id int) []byte {
			n := r.Intn(48)
			b := make([]byte, n)
			for i := range b {
				for {
					b[i] = byte(r.Intn(256))
					if b[i] != 0 && b[i] != '?' {
						break
					}
				}
			}
			return append([]byte(fmt.Sprintf("t%d:", id)), b...)
		}
	}
	mk := func(pr pair, va, vb int, k int) *world.World {
		sc := &Schedule{Pol: map[string]int{"A": pr.a, "B": pr.b}, Ver: map[string]int{"A": va, "B": vb}, Fam: "nego"}
		w := newWorld(sc, *seed*9973+uint64(pr.a*64+pr.b)*131+uint64(k), of)
		textGen(w)
		// the human-readable text after the query tag is free: it may contain digits and question marks
		switch (pr.a + pr.b + k) % 3 {
		case 1:
			w.P["A"].Conv.SetFriendlyQueryMessage("do you speak OTR 2 or 3? see v23?")
		case 2:
			w.P["B"].Conv.SetFriendlyQueryMessage("4?")
		}
		return w
	}
	fin := func(w *world.World) {
		w.Done()
		w.Flush()
		runs++
		events += w.N
		if len(w.Panics) > 0 {
			fmt.Printf("PANIC negotiate %s\n", firstLines(w.Panics[0], 1))
		}
	}
	for i, pr := range pairs {
		if i%*shards != *shard {
			continue
		}
		// (i) user query, (ii) user text first
		for k, first := range []string{"query", "send", "sendB"} {
			w := mk(pr, 0, 0, k)
			switch first {
			case "query":
				w.Query(w.P["A"])
			case "send":
				w.Send(w.P["A"], 1)
			case "sendB":
				w.Send(w.P["B"], 1)
			}
			drain(w, 24)
			w.Send(w.P["A"], 2)
			w.Send(w.P["B"], 3)
			drain(w, 12)
			fin(w)
		}
		// (iii) offers with arbitrary version lists, made by anybody
		w := mk(pr, 0, 0, 10)
		o := offers[rng.Intn(len(offers))]
		w.InjectRaw(w.P["B"], []byte(o))
		drain(w, 24)
		fin(w)
		w = mk(pr, 0, 0, 11)
		tg := tags[rng.Intn(len(tags))]
		tx := w.Text(5)
		w.InjectRaw(w.P["B"], append(append([]byte{}, tx...), tg...))
		drain(w, 24)
		fin(w)
		// (v) a stray key-exchange message (ignored: no exchange is under way; or for another instance)
		// arrives before the negotiation; it must not decide anything
		for k, st := range []struct {
			v    int
			kind string
			rt   uint32
		}{{2, "dhk", 0}, {3, "dhk", 0}, {3, "dhk", 0x55550001}, {2, "sig", 0}, {3, "rs", 0x55550002}, {2, "rs", 0}, {3, "sig", 0}} {
			if (i+k)%3 != 0 && *sample > 0 {
				continue
			}
			w := mk(pr, 0, 0, 30+k)
			ev := newEvil(w, int64(i*16+k))
			var body []byte
			typ := byte(ref.TypeDHKey)
			switch st.kind {
			case "dhk":
				body = (&ref.DHKey{Gy: ev.secret().Pub}).Bytes()
			case "sig":
				typ = ref.TypeSig
				body = (&ref.Sig{EncSig: ev.bytes(80), MAC: ev.bytes(20)}).Bytes()
			case "rs":
				typ = ref.TypeRevealSig
				body = (&ref.RevealSig{R: ev.bytes(16), EncSig: ev.bytes(80), MAC: ev.bytes(20)}).Bytes()
			}
			var stag uint32
			if st.v == 3 {
				stag = 0x0e0e0e0e
			}
			victim := []string{"A", "B"}[(i+k)%2]
			w.ReceiveAttack(w.P[victim], [][]byte{ref.Armor(append(ref.BuildHeader(st.v, typ, stag, st.rt), body...))}, "stray/"+st.kind)
			if k%2 == 0 {
				w.Query(w.P["A"])
			} else {
				w.InjectRaw(w.P[victim], []byte([]string{"?OTRv23?", "?OTRv2?", "?OTRv3?"}[(i+k)%3]))
			}
			drain(w, 24)
			fin(w)
		}
		// (iv) a first DH-Commit of a fixed version
		for _, v := range []int{2, 3} {
			if pr.a&(1<<(uint(v)-2)) == 0 {
				continue
			}
			w := mk(pr, v, 0, 20+v)
			w.InjectRaw(w.P["A"], []byte(fmt.Sprintf("?OTRv%d?", v)))
			drain(w, 24)
			fin(w)
		}
	}
	fmt.Printf("RUN schedules=%d events=%d\n", runs, events)
	return 0
}
