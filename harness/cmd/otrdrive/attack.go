package main

import "verif/harness/world"

func execAttack(w *world.World, s Step) bool { return false }
