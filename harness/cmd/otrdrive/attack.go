package main

import (
	"bytes"
	"crypto/sha256"
	"fmt"
	"strings"

	"encoding/binary"
	otr3 "github.com/coyim/otr3"
	"math/big"
	"math/rand"

	"verif/harness/ref"
	"verif/harness/world"
)

// A variant is one tampered form of a wire message.
type variant struct {
	name string
	raw  []byte // armoured message
}

type frange struct {
	name   string
	lo, hi int
}

// fieldRanges returns the byte ranges of the fields of a decoded binary message.
func fieldRanges(raw []byte) []frange {
	h, err := ref.ParseHeader(raw)
	if err != nil || h == nil || h.HdrLen == 0 {
		return nil
	}
	out := []frange{{"version", 0, 2}, {"type", 2, 3}}
	if h.Version == 3 {
		out = append(out, frange{"st", 3, 7}, frange{"rt", 7, 11})
	}
	pos := h.HdrLen
	data := func(name string) bool {
		if len(raw)-pos < 4 {
			return false
		}
		n := int(binary.BigEndian.Uint32(raw[pos:]))
		if n < 0 || len(raw)-pos-4 < n {
			return false
		}
		out = append(out, frange{name + "len", pos, pos + 4})
		if n > 0 {
			out = append(out, frange{name, pos + 4, pos + 4 + n})
		}
		pos += 4 + n
		return true
	}
	fixed := func(name string, n int) bool {
		if len(raw)-pos < n {
			return false
		}
		out = append(out, frange{name, pos, pos + n})
		pos += n
		return true
	}
	switch h.Type {
	case ref.TypeDHCommit:
		_ = data("enc") && data("hash")
	case ref.TypeDHKey:
		data("gy")
	case ref.TypeRevealSig:
		_ = data("r") && data("encsig") && fixed("mac", 20)
	case ref.TypeSig:
		_ = data("encsig") && fixed("mac", 20)
	case ref.TypeData:
		_ = fixed("flag", 1) && fixed("skid", 4) && fixed("rkid", 4) && data("next") && fixed("ctr", 8) && data("enc") && fixed("mac", 20) && data("oldmacs")
	}
	return out
}

func cloneBytes(b []byte) []byte { return append([]byte{}, b...) }

// variants enumerates tampered forms of an armoured binary message that must
// not be accepted as the genuine one. all=false samples positions per field.
func variants(full []byte, rng *rand.Rand, all bool, perField int) []variant {
	var out []variant
	raw, err := ref.Dearmor(full)
	if err != nil {
		return nil
	}
	add := func(name string, b []byte) { out = append(out, variant{name, ref.Armor(b)}) }
	for _, fr := range fieldRanges(raw) {
		if fr.name == "oldmacs" || fr.name == "oldmacslen" {
			continue // not authenticated: changing it must not cause rejection
		}
		positions := []int{}
		if all || fr.hi-fr.lo <= perField {
			for i := fr.lo; i < fr.hi; i++ {
				positions = append(positions, i)
			}
		} else {
			positions = append(positions, fr.lo, fr.hi-1)
			for len(positions) < perField {
				positions = append(positions, fr.lo+rng.Intn(fr.hi-fr.lo))
			}
		}
		for _, p := range positions {
			b := cloneBytes(raw)
			b[p] ^= 1 << uint(rng.Intn(8))
			add(fr.name+"/bit", b)
			if all {
				b2 := cloneBytes(raw)
				b2[p] ^= 0xff
				add(fr.name+"/byte", b2)
			}
		}
	}
	// every 32-bit length or count prefix replaced by boundary values
	for _, fr := range fieldRanges(raw) {
		if !strings.HasSuffix(fr.name, "len") || fr.hi-fr.lo != 4 {
			continue
		}
		cur := binary.BigEndian.Uint32(raw[fr.lo:])
		for _, nv := range []uint32{0, 1, cur - 1, cur + 1, 1 << 16, 1<<31 - 1, 1<<32 - 1, 0x10000000, 1 << 30, 1<<30 + 1, 1 << 31} {
			if nv == cur {
				continue
			}
			if fr.name == "oldmacslen" {
				continue
			}
			b := cloneBytes(raw)
			binary.BigEndian.PutUint32(b[fr.lo:], nv)
			add(fr.name+"/huge", b)
		}
	}
	// truncations and extensions
	cuts := []int{}
	if all {
		for i := 0; i < len(raw); i++ {
			cuts = append(cuts, i)
		}
	} else {
		cuts = append(cuts, 0, 1, 2, 3, len(raw)-1, len(raw)-5, len(raw)-20, len(raw)-24, len(raw)/2)
		for i := 0; i < 6; i++ {
			cuts = append(cuts, rng.Intn(len(raw)))
		}
	}
	for _, c := range cuts {
		if c >= 0 && c < len(raw) {
			add("trunc", cloneBytes(raw[:c]))
		}
	}
	h, _ := ref.ParseHeader(raw)
	if h != nil && h.HdrLen > 0 {
		// semantic substitutions
		if h.Version == 3 {
			for _, t := range []uint32{0, 1, 0xff, 0x100, 0x12345678, 0xffffffff} {
				b := cloneBytes(raw)
				binary.BigEndian.PutUint32(b[3:], t)
				add("st=", b)
				b2 := cloneBytes(raw)
				binary.BigEndian.PutUint32(b2[7:], t)
				// a zero receiver tag is legitimate on key-exchange messages (the sender may not know our
				// tag yet); on a data message it changes bytes the MAC covers
				if t != 0 || h.Type == ref.TypeData {
					add("rt=", b2)
				}
			}
			b := cloneBytes(raw)
			copy(b[3:7], raw[7:11])
			copy(b[7:11], raw[3:7])
			add("tags-swapped", b)
		}
		for _, v := range []uint16{1, 2, 3, 4, 0} {
			if int(v) != h.Version {
				b := cloneBytes(raw)
				binary.BigEndian.PutUint16(b, v)
				add("version=", b)
			}
		}
		switch h.Type {
		case ref.TypeDHKey:
			for _, v := range degenerate() {
				add("gy-degenerate", append(cloneBytes(h.HdrBytes), ref.PutMPI(nil, v)...))
			}
			add("gy-other", append(cloneBytes(h.HdrBytes), ref.PutMPI(nil, ref.Pub([]byte{byte(rng.Intn(250) + 3), 7, 9}))...))
		case ref.TypeData:
			if _, err := ref.ParseData(h.Body); err == nil {
				for _, f := range []func(*ref.Data){
					func(d *ref.Data) { binary.BigEndian.PutUint64(d.Ctr[:], binary.BigEndian.Uint64(d.Ctr[:])+1) },
					func(d *ref.Data) { binary.BigEndian.PutUint64(d.Ctr[:], binary.BigEndian.Uint64(d.Ctr[:])+1000) },
					func(d *ref.Data) { d.SKID++ },
					func(d *ref.Data) { d.SKID-- },
					func(d *ref.Data) { d.RKID++ },
					func(d *ref.Data) { d.RKID-- },
					func(d *ref.Data) { d.SKID, d.RKID = 0, 0 },
					func(d *ref.Data) { d.Flag ^= 1 },
					func(d *ref.Data) { d.Y = ref.Pub([]byte{3, 1, 4, 1, 5}) },
					func(d *ref.Data) { d.Enc = append(cloneBytes(d.Enc), 0) },
					func(d *ref.Data) { d.Enc = d.Enc[:len(d.Enc)-1] },
					func(d *ref.Data) { d.Enc = nil },
				} {
					d2, _ := ref.ParseData(cloneBytes(h.Body))
					f(d2)
					add("data-field", append(cloneBytes(h.HdrBytes), d2.Bytes()...))
				}
				// the same values in another encoding: the next-key integer with leading zero bytes (length
				// prefix adjusted).  The MAC covers the bytes sent, not the values read from them
				for _, fr := range fieldRanges(raw) {
					if fr.name != "nextlen" {
						continue
					}
					for _, z := range []int{1, 2} {
						n := binary.BigEndian.Uint32(raw[fr.lo:])
						b := cloneBytes(raw[:fr.lo])
						b = binary.BigEndian.AppendUint32(b, n+uint32(z))
						b = append(b, make([]byte, z)...)
						b = append(b, raw[fr.hi:]...)
						add("next/noncanonical", b)
					}
				}
			}
		}
	}
	// armour damage
	bad := cloneBytes(full)
	bad[len(bad)/2] = '!'
	out = append(out, variant{"armour", bad})
	out = append(out, variant{"no-dot", cloneBytes(full[:len(full)-1])})
	return out
}

func degenerate() []*big.Int {
	p := ref.P
	return []*big.Int{big.NewInt(0), big.NewInt(1), new(big.Int).Sub(p, big.NewInt(1)), new(big.Int).Set(p), new(big.Int).Add(p, big.NewInt(1))}
}

func execAttack(w *world.World, s Step) bool {
	p := w.P[s.P]
	switch s.A {
	case "Attack":
		return execModelAttack(w, s)
	case "TamperAll":
		// copies of the message at the head of p's queue, each tampered in one way, are delivered
		// before the genuine one; their replies go nowhere
		if len(p.Queue) == 0 {
			return false
		}
		wm := p.Queue[0]
		full, err := ref.Reassemble(wm.Raw)
		if err != nil || !bytes.HasPrefix(full, []byte("?OTR:")) {
			return false
		}
		rng := rand.New(rand.NewSource(int64(w.Seed) + int64(wm.ID)*7919 + int64(s.I)))
		per := s.Z
		if per == 0 {
			per = 2
		}
		vs := variants(full, rng, s.Q, per)
		{
			// forms that are accepted by design (another valid DH value in a DH-Key) only make
			// sense when they replace the genuine message
			kept := vs[:0]
			accepting := otr3.VerifProject(p.Conv).AKE.State == "awDHKey"
			for _, v := range vs {
				if v.name != "gy-other" || !accepting {
					kept = append(kept, v)
				}
			}
			vs = kept
		}
		if otr3.VerifProject(p.Conv).TheirTag == 0 {
			// a valid foreign sender tag would (by design) bind the conversation to that instance
			kept := vs[:0]
			for _, v := range vs {
				if !strings.HasPrefix(v.name, "st") && v.name != "tags-swapped" {
					kept = append(kept, v)
				}
			}
			vs = kept
		}
		if s.T > 0 && len(vs) > s.T {
			rng.Shuffle(len(vs), func(i, j int) { vs[i], vs[j] = vs[j], vs[i] })
			// the few forms that keep every value and change only its encoding are always tried
			var must []variant
			for _, v := range vs[s.T:] {
				if strings.HasSuffix(v.name, "/noncanonical") {
					must = append(must, v)
				}
			}
			vs = append(vs[:s.T:s.T], must...)
		}
		for _, v := range vs {
			// a form that still is a well-formed DH-Key with another value in range is accepted by
			// design (first DH-Key wins): it only makes sense as a replacement of the genuine one
			ab := w.Abs([][]byte{v.raw}, p.Peer, p.Name)
			if ab["t"] == "DHK" && otr3.VerifProject(p.Conv).AKE.State == "awDHKey" {
				if gy, ok := ab["gy"].(int); ok && gy != -2 && gy != wm.Abs["gy"] {
					continue
				}
			}
			// while our own DH-Commit is unanswered, any other well-formed DH-Commit is a collision to be
			// resolved by comparing hashes (it is not authenticated): a damaged copy can by design make us
			// give way; it only makes sense as a replacement of the genuine one
			if ab["t"] == "DHC" && otr3.VerifProject(p.Conv).AKE.State == "awDHKey" && (ab["hash"] != wm.Abs["hash"] || ab["enc"] != wm.Abs["enc"]) {
				continue
			}
			w.ReceiveAttack(p, [][]byte{v.raw}, v.name)
		}
		// tampered forms of messages that were delivered earlier, arriving now (in a later state)
		earlier := 0
		for k := len(w.Wire) - 1; k >= 0 && earlier < 3; k-- {
			old := w.Wire[k]
			if old.To != p.Name || old == wm || old.Abs["t"] == "G" || old.Abs["t"] == "Q" || old.Abs["t"] == "P" || old.Abs["t"] == "E" {
				continue
			}
			if _, isAtk := old.Abs["atkname"]; isAtk {
				continue
			}
			ofull, err := ref.Reassemble(old.Raw)
			if err != nil || !bytes.HasPrefix(ofull, []byte("?OTR:")) {
				continue
			}
			earlier++
			ovs := variants(ofull, rng, false, 1)
			rng.Shuffle(len(ovs), func(i, j int) { ovs[i], ovs[j] = ovs[j], ovs[i] })
			n := 0
			accepting := otr3.VerifProject(p.Conv).AKE.State == "awDHKey"
			for _, v := range ovs {
				if n >= 4 && v.name != "gy-other" {
					continue
				}
				if strings.HasPrefix(v.name, "st") || v.name == "tags-swapped" {
					continue
				}
				// a DH-Commit carries no authentication: one that still parses starts (or replaces) an
				// exchange by design, and so does a DH-Key while one is awaited
				if ab := w.Abs([][]byte{v.raw}, p.Peer, p.Name); (ab["t"] == "DHK" && accepting) || ab["t"] == "DHC" {
					continue
				}
				w.ReceiveAttack(p, [][]byte{v.raw}, "late/"+v.name)
				n++
			}
		}
		// unauthenticated plaintext lines (plain and whitespace-tagged) slipped into the conversation
		w.Text(7777)
		w.ReceiveAttack(p, [][]byte{w.Text(7777)}, "plaintext")
		if !p.Pol.WsStart {
			w.ReceiveAttack(p, [][]byte{append(append([]byte{}, w.Text(7777)...), []byte(" \t  \t\t\t\t \t \t \t    \t\t  \t   \t\t  \t\t")...)}, "plaintext-tagged")
		}
		return true
	case "ForgeDisclosed":
		forgeWithDisclosed(w, rand.New(rand.NewSource(int64(w.Seed)+int64(len(w.Wire)))))
		return true
	case "TamperOne":
		// the message at the head of p's queue is replaced by one tampered form (then delivered normally)
		if len(p.Queue) == 0 {
			return false
		}
		wm := p.Queue[0]
		full, err := ref.Reassemble(wm.Raw)
		if err != nil || !bytes.HasPrefix(full, []byte("?OTR:")) {
			return false
		}
		rng := rand.New(rand.NewSource(int64(w.Seed) + int64(wm.ID)*7919))
		vs := variants(full, rng, false, 2)
		if len(vs) == 0 {
			return false
		}
		v := vs[s.I%len(vs)]
		p.Queue = p.Queue[1:]
		nw := w.InjectRaw(p, v.raw)
		// move it to the head
		p.Queue = append([]*world.WireMsg{nw}, p.Queue[:len(p.Queue)-1]...)
		w.Deliver(p)
		return true
	case "SMPTamper":
		// the SMP payload of the (authentic) data message at the head of p's queue is replaced by a
		// deviant one; the message is re-encrypted and re-authenticated with the session's keys
		if len(p.Queue) == 0 {
			return false
		}
		wm := p.Queue[0]
		forged, class, name := deviantSMP(w, wm, s.I, s.F)
		if forged == nil {
			return false
		}
		p.Queue = p.Queue[1:]
		w.SMPClass = class
		nw := w.InjectRaw(p, forged)
		w.SMPClass = ""
		p.Queue = append([]*world.WireMsg{nw}, p.Queue[:len(p.Queue)-1]...)
		nw.Abs["atkname"] = name
		w.DeliverAttack(p, "smp-deviant/"+name)
		return true
	case "OldMacsTail":
		// the unauthenticated list of disclosed MAC keys is changed: the message must still be accepted
		if len(p.Queue) == 0 {
			return false
		}
		wm := p.Queue[0]
		full, err := ref.Reassemble(wm.Raw)
		if err != nil {
			return false
		}
		raw, err := ref.Dearmor(full)
		if err != nil {
			return false
		}
		h, err := ref.ParseHeader(raw)
		if err != nil || h.Type != ref.TypeData {
			return false
		}
		d, err := ref.ParseData(h.Body)
		if err != nil {
			return false
		}
		d.OldMACs = append(cloneBytes(d.OldMACs), bytes.Repeat([]byte{0x5a}, 20)...)
		p.Queue = p.Queue[1:]
		nw := w.InjectRaw(p, ref.Armor(append(cloneBytes(h.HdrBytes), d.Bytes()...)))
		p.Queue = append([]*world.WireMsg{nw}, p.Queue[:len(p.Queue)-1]...)
		w.Deliver(p)
		return true
	}
	return false
}

// smpFieldCount is the number of MPIs of each SMP TLV type.
var smpFieldCount = map[uint16]int{2: 6, 7: 6, 3: 11, 4: 8, 5: 3}

func boundary(honest *big.Int, rng *rand.Rand) []*big.Int {
	one := big.NewInt(1)
	rnd := new(big.Int).Rand(rng, ref.P)
	return []*big.Int{big.NewInt(0), big.NewInt(1), new(big.Int).Sub(ref.P, one), new(big.Int).Set(ref.P), new(big.Int).Add(ref.P, one),
		new(big.Int).Set(ref.Q), rnd, new(big.Int).Add(honest, one), new(big.Int).Sub(honest, one)}
}

// deviantSMP rebuilds the data message wm with variant number idx of its SMP TLV.
// Returns the armoured message, the validity class of the payload and a name.
func deviantSMP(w *world.World, wm *world.WireMsg, idx int, force string) ([]byte, string, string) {
	full, err := ref.Reassemble(wm.Raw)
	if err != nil {
		return nil, "", ""
	}
	raw, err := ref.Dearmor(full)
	if err != nil {
		return nil, "", ""
	}
	h, err := ref.ParseHeader(raw)
	if err != nil || h.Type != ref.TypeData {
		return nil, "", ""
	}
	d, err := ref.ParseData(h.Body)
	if err != nil {
		return nil, "", ""
	}
	mac, _ := wm.Abs["mac"].([]int)
	if len(mac) != 2 || mac[0] <= 0 {
		return nil, "", ""
	}
	keys := w.Reg.Sess(w.Reg.Secret(mac[0]), w.Reg.Secret(mac[1]))
	pt := ref.CTR(keys.SendAES, d.Ctr[:], d.Enc)
	text, tlvs, err := ref.SplitPlain(pt)
	if err != nil {
		return nil, "", ""
	}
	ti := -1
	for i, t := range tlvs {
		if _, ok := smpFieldCount[t.Type]; ok {
			ti = i
		}
	}
	if ti < 0 {
		return nil, "", ""
	}
	t := tlvs[ti]
	rng := rand.New(rand.NewSource(int64(w.Seed) + int64(idx)*977))
	val := t.Value
	question := []byte{}
	if t.Type == 7 {
		n := bytes.IndexByte(val, 0)
		if n < 0 {
			return nil, "", ""
		}
		question = val[:n+1]
		val = val[n+1:]
	}
	if len(val) < 4 {
		return nil, "", ""
	}
	count := int(binary.BigEndian.Uint32(val))
	var mpis []*big.Int
	rest := val[4:]
	for i := 0; i < count; i++ {
		if len(rest) < 4 {
			return nil, "", ""
		}
		n := int(binary.BigEndian.Uint32(rest))
		if len(rest) < 4+n {
			return nil, "", ""
		}
		mpis = append(mpis, new(big.Int).SetBytes(rest[4:4+n]))
		rest = rest[4+n:]
	}
	build := func(cnt uint32, ms []*big.Int, q []byte) []byte {
		b := append([]byte{}, q...)
		b = ref.PutWord(b, cnt)
		for _, m := range ms {
			b = ref.PutMPI(b, m)
		}
		return b
	}
	if force == "" && t.Type == 3 && idx%7 == 3 && len(mpis) == 11 {
		// SMP2 with degenerate group elements and proofs that are nevertheless consistent
		// (g2b = g3b = Pb = 1, Qb = 0, cP = H(5, 1, 0)): passes every hash check; only the
		// group-element test can refuse it
		hashBN := func(ix byte, vs ...*big.Int) *big.Int {
			h := sha256.New()
			h.Write([]byte{ix})
			for _, v := range vs {
				h.Write(ref.PutMPI(nil, v))
			}
			return new(big.Int).SetBytes(h.Sum(nil))
		}
		r2 := new(big.Int).Rand(rng, ref.Q)
		r3 := new(big.Int).Rand(rng, ref.Q)
		one, zero := big.NewInt(1), big.NewInt(0)
		c2 := hashBN(3, new(big.Int).Exp(ref.G, r2, ref.P))
		c3 := hashBN(4, new(big.Int).Exp(ref.G, r3, ref.P))
		// which of Pb / Qb is the non-invertible one, and in which representation (0 or p)
		pb, qb := one, zero
		d5 := big.NewInt(5)
		cp := hashBN(5, one, zero)
		switch (idx / 7) % 4 {
		case 1:
			qb = new(big.Int).Set(ref.P)
		case 2:
			pb, qb = new(big.Int).Set(ref.P), one
			cp = hashBN(5, zero, new(big.Int).Exp(ref.G, d5, ref.P))
		case 3:
			pb, qb = zero, one
			cp = hashBN(5, zero, new(big.Int).Exp(ref.G, d5, ref.P))
		}
		ms := []*big.Int{one, c2, r2, one, c3, r3, pb, qb, cp, d5, big.NewInt(7)}
		b := ref.PutWord(nil, 11)
		for _, m := range ms {
			b = ref.PutMPI(b, m)
		}
		tlvs[ti] = ref.TLV{Type: 3, Value: b}
		d.Enc = ref.CTR(keys.SendAES, d.Ctr[:], ref.JoinPlain(text, tlvs))
		d.MAC = ref.HMAC1(keys.SendMAC, h.HdrBytes, d.Unsigned())
		return ref.Armor(append(append([]byte{}, h.HdrBytes...), d.Bytes()...)), "bad", "t3-degenerate-consistent"
	}
	if force == "" && (idx%13 == 5 || idx%13 == 6) {
		// an honest SMP payload next to a "disconnected" TLV in the same (authenticated) message:
		// the session ends in the middle of the TLV list
		disc := ref.TLV{Type: 1, Value: nil}
		var nt []ref.TLV
		name := "disconnect-before-smp"
		for i, x := range tlvs {
			if i == ti && idx%13 == 5 {
				nt = append(nt, disc)
			}
			nt = append(nt, x)
			if i == ti && idx%13 == 6 {
				nt = append(nt, disc)
				name = "disconnect-after-smp"
			}
		}
		d.Enc = ref.CTR(keys.SendAES, d.Ctr[:], ref.JoinPlain(text, nt))
		d.MAC = ref.HMAC1(keys.SendMAC, h.HdrBytes, d.Unsigned())
		return ref.Armor(append(append([]byte{}, h.HdrBytes...), d.Bytes()...)), "", name
	}
	nfields := len(mpis)
	nb := 9
	total := nfields*nb + 5
	if t.Type == 7 {
		total++
	}
	v := idx % total
	// the count variants can be asked for by name (systematic families)
	if k, ok := map[string]int{"count-1": 0, "count+1": 1, "count0": 2, "countmax": 3, "count2^28": 4}[force]; ok {
		v = nfields*nb + k
	}
	if cnt, ok := map[string]uint32{"count2^30": 1 << 30, "count2^30+1": 1<<30 + 1, "count2^31": 1 << 31}[force]; ok {
		// counts whose product with the size of a number wraps around in 32 bits
		nv := build(cnt, mpis, question)
		tlvs[ti] = ref.TLV{Type: t.Type, Value: nv}
		d.Enc = ref.CTR(keys.SendAES, d.Ctr[:], ref.JoinPlain(text, tlvs))
		d.MAC = ref.HMAC1(keys.SendMAC, h.HdrBytes, d.Unsigned())
		return ref.Armor(append(append([]byte{}, h.HdrBytes...), d.Bytes()...)), "corrupt", fmt.Sprintf("t%d-%s", t.Type, force)
	}
	class, name := "bad", ""
	var newVal []byte
	switch {
	case v < nfields*nb:
		f, b := v/nb, v%nb
		ms := append([]*big.Int{}, mpis...)
		nv := boundary(mpis[f], rng)[b]
		if nv.Sign() < 0 {
			nv = big.NewInt(2)
		}
		if nv.Cmp(mpis[f]) == 0 {
			nv = new(big.Int).Add(nv, big.NewInt(2))
		}
		ms[f] = nv
		newVal = build(uint32(count), ms, question)
		name = fmt.Sprintf("t%d-field%d-b%d", t.Type, f, b)
	case v == nfields*nb:
		newVal, class, name = build(uint32(count-1), mpis[:count-1], question), "corrupt", fmt.Sprintf("t%d-count-1", t.Type)
	case v == nfields*nb+1:
		newVal, class, name = build(uint32(count+1), mpis, question), "corrupt", fmt.Sprintf("t%d-count+1", t.Type)
	case v == nfields*nb+2:
		newVal, class, name = build(0, nil, question), "corrupt", fmt.Sprintf("t%d-count0", t.Type)
	case v == nfields*nb+3:
		newVal, class, name = build(0xffffffff, mpis, question), "corrupt", fmt.Sprintf("t%d-countmax", t.Type)
	case v == nfields*nb+4:
		newVal, class, name = build(0x10000000, mpis, question), "corrupt", fmt.Sprintf("t%d-count2^28", t.Type)
	default:
		// question without the terminating NUL
		newVal, class, name = bytes.ReplaceAll(t.Value, []byte{0}, []byte{'x'}), "corrupt", "t7-question-without-nul"
	}
	tlvs[ti] = ref.TLV{Type: t.Type, Value: newVal}
	d.Enc = ref.CTR(keys.SendAES, d.Ctr[:], ref.JoinPlain(text, tlvs))
	d.MAC = ref.HMAC1(keys.SendMAC, h.HdrBytes, d.Unsigned())
	return ref.Armor(append(append([]byte{}, h.HdrBytes...), d.Bytes()...)), class, name
}
