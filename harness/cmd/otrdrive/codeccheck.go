package main

import (
	"bufio"
	"bytes"
	"encoding/json"
	"flag"
	"fmt"
	"math/big"
	"math/rand"
	"os"
	"path/filepath"
	"strings"

	otr3 "github.com/coyim/otr3"

	"verif/harness/ref"
	"verif/harness/world"
)

type codecVec struct {
	Kind  string   `json:"kind"`
	F     [][]int  `json:"f"`
	N     []uint64 `json:"n"`
	Bytes []int    `json:"bytes"`
}

func toBytes(a []int) []byte {
	b := make([]byte, len(a))
	for i, v := range a {
		b[i] = byte(v)
	}
	return b
}

// cmdCodecCheck: (a) Codec.tla's (value, bytes) vectors through the real serialisers and parsers;
// (b) generated values beyond TLC's scope: round trips through the library and agreement with the
// independent codec; (c) DSA keys: wire form, fingerprint input, libotr key files.
func cmdCodecCheck(args []string) int {
	fs := flag.NewFlagSet("codeccheck", flag.ExitOnError)
	vecs := fs.String("vectors", "", "CODECVEC lines (JSON per line)")
	seed := fs.Int64("seed", 1, "seed")
	rounds := fs.Int("rounds", 300, "generated values per structure kind")
	fs.Parse(args)
	viol := 0
	report := func(kind, detail string) {
		viol++
		if viol <= 12 {
			fmt.Printf("CODECVIOLATION %s %s\n", kind, detail)
		}
	}
	nvec := 0
	if *vecs != "" {
		f, err := os.Open(*vecs)
		if err != nil {
			fmt.Fprintln(os.Stderr, err)
			return 2
		}
		sc := bufio.NewScanner(f)
		sc.Buffer(make([]byte, 1<<20), 1<<24)
		for sc.Scan() {
			var v codecVec
			if err := json.Unmarshal(sc.Bytes(), &v); err != nil {
				fmt.Fprintln(os.Stderr, "bad vector:", err)
				return 2
			}
			nvec++
			want := toBytes(v.Bytes)
			var f0, f1 []byte
			if len(v.F) > 0 {
				f0 = toBytes(v.F[0])
			}
			if len(v.F) > 1 {
				f1 = toBytes(v.F[1])
			}
			switch v.Kind {
			case "data":
				if got := otr3.AppendData(nil, f0); !bytes.Equal(got, want) {
					report("data", fmt.Sprintf("AppendData(%x) = %x, specification says %x", f0, got, want))
				}
				if rest, d, ok := otr3.ExtractData(append(append([]byte{}, want...), 7)); !ok || !bytes.Equal(d, f0) || !bytes.Equal(rest, []byte{7}) {
					report("data", fmt.Sprintf("ExtractData(%x) = %x ok=%v", want, d, ok))
				}
				for k := 0; k < len(want); k++ {
					if _, _, ok := otr3.ExtractData(want[:k]); ok {
						report("data", fmt.Sprintf("ExtractData accepts the truncation %x", want[:k]))
					}
				}
			case "mpi":
				val := new(big.Int).SetBytes(f0)
				if got := otr3.AppendMPI(nil, val); !bytes.Equal(got, want) {
					report("mpi", fmt.Sprintf("AppendMPI(%x) = %x, specification says %x (minimal form)", f0, got, want))
				}
				if _, m, ok := otr3.ExtractMPI(otr3.AppendData(nil, f0)); !ok || m.Cmp(val) != 0 {
					report("mpi", fmt.Sprintf("ExtractMPI of %x gives %v", f0, m))
				}
			case "word":
				if got := otr3.AppendWord(nil, uint32(v.N[0])); !bytes.Equal(got, want) {
					report("word", fmt.Sprintf("AppendWord(%d) = %x", v.N[0], got))
				}
				if _, w, ok := otr3.ExtractWord(want); !ok || uint64(w) != v.N[0] {
					report("word", fmt.Sprintf("ExtractWord(%x) = %d", want, w))
				}
			case "short":
				if got := otr3.AppendShort(nil, uint16(v.N[0])); !bytes.Equal(got, want) {
					report("short", fmt.Sprintf("AppendShort(%d) = %x", v.N[0], got))
				}
				if _, w, ok := otr3.ExtractShort(want); !ok || uint64(w) != v.N[0] {
					report("short", fmt.Sprintf("ExtractShort(%x) = %d", want, w))
				}
			case "tlv":
				if got := otr3.VerifSerialize("tlv", 3, [][]byte{f0}, v.N); !bytes.Equal(got, want) {
					report("tlv", fmt.Sprintf("tlv{%d,%x} serialises to %x, specification says %x", v.N[0], f0, got, want))
				}
				if f, n, ok := otr3.VerifParse("tlv", 3, want); !ok || !bytes.Equal(f[0], f0) || n[0] != v.N[0] || int(n[1]) != len(f0) {
					report("tlv", fmt.Sprintf("parsing %x gives %x %v ok=%v", want, f, n, ok))
				}
			case "dhcommit":
				if got := otr3.VerifSerialize("dhcommit", 3, [][]byte{f0, f1}, nil); !bytes.Equal(got, want) {
					report("dhcommit", fmt.Sprintf("serialises to %x, specification says %x", got, want))
				}
				if f, _, ok := otr3.VerifParse("dhcommit", 3, want); !ok || !bytes.Equal(f[0], f0) || !bytes.Equal(f[1], f1) {
					report("dhcommit", fmt.Sprintf("parsing %x gives %x ok=%v", want, f, ok))
				}
			case "dhkey":
				if got := otr3.VerifSerialize("dhkey", 3, [][]byte{f0}, nil); !bytes.Equal(got, want) {
					report("dhkey", fmt.Sprintf("serialises to %x, specification says %x", got, want))
				}
				if f, _, ok := otr3.VerifParse("dhkey", 3, want); !ok || !bytes.Equal(f[0], f0) {
					report("dhkey", fmt.Sprintf("parsing %x gives %x ok=%v", want, f, ok))
				}
			}
		}
		f.Close()
	}
	// ---- (b) generated values
	rng := rand.New(rand.NewSource(*seed))
	lens := []int{0, 1, 2, 19, 20, 21, 255, 256, 1000, 65535, 65536}
	blob := func(max int) []byte {
		n := lens[rng.Intn(len(lens))]
		for n > max {
			n = lens[rng.Intn(len(lens))]
		}
		b := make([]byte, n)
		rng.Read(b)
		if n > 0 && rng.Intn(3) == 0 {
			b[0] = 0 // leading zero
		}
		return b
	}
	mpi := func() []byte {
		b := blob(400)
		return new(big.Int).SetBytes(b).Bytes() // canonical magnitude
	}
	gen := 0
	same := func(kind string, version int, f [][]byte, n []uint64) {
		gen++
		ser := otr3.VerifSerialize(kind, version, f, n)
		f2, n2, ok := otr3.VerifParse(kind, version, ser)
		if !ok {
			report(kind, fmt.Sprintf("its own serialisation (%d bytes) is refused by the parser", len(ser)))
			return
		}
		if len(f2) != len(f) {
			report(kind, fmt.Sprintf("round trip changes the number of fields %d -> %d", len(f), len(f2)))
			return
		}
		for i := range f {
			if !bytes.Equal(f[i], f2[i]) {
				report(kind, fmt.Sprintf("round trip changes field %d: %d bytes %x... -> %d bytes %x...", i, len(f[i]), head(f[i]), len(f2[i]), head(f2[i])))
				return
			}
		}
		for i := range n {
			if i < len(n2) && n[i] != n2[i] && kind != "tlv" {
				report(kind, fmt.Sprintf("round trip changes number %d: %d -> %d", i, n[i], n2[i]))
			}
		}
		// re-serialising the parsed value parses to the same value
		ser2 := otr3.VerifSerialize(kind, version, f2, n2)
		f3, _, ok3 := otr3.VerifParse(kind, version, ser2)
		if !ok3 || len(f3) != len(f2) {
			report(kind, "re-serialising a parsed value does not parse")
		}
		// the independent codec reads the same fields
		switch kind {
		case "dhcommit":
			if m, err := ref.ParseDHCommit(ser); err != nil || !bytes.Equal(m.EncGx, f[0]) || !bytes.Equal(m.HashGx, f[1]) || !bytes.Equal(m.Bytes(), ser) {
				report(kind, "the independent codec disagrees")
			}
		case "dhkey":
			if m, err := ref.ParseDHKey(ser); err != nil || !bytes.Equal(m.Gy.Bytes(), f[0]) || !bytes.Equal(m.Bytes(), ser) {
				report(kind, "the independent codec disagrees")
			}
		case "revealsig":
			if m, err := ref.ParseRevealSig(ser); err != nil || !bytes.Equal(m.R, f[0]) || !bytes.Equal(m.EncSig, f[1]) || !bytes.Equal(m.MAC, f[2]) || !bytes.Equal(m.Bytes(), ser) {
				report(kind, "the independent codec disagrees")
			}
		case "sig":
			if m, err := ref.ParseSig(ser); err != nil || !bytes.Equal(m.EncSig, f[0]) || !bytes.Equal(m.MAC, f[1]) || !bytes.Equal(m.Bytes(), ser) {
				report(kind, "the independent codec disagrees")
			}
		case "data":
			m, err := ref.ParseData(ser)
			if err != nil || !bytes.Equal(m.Y.Bytes(), f[0]) || !bytes.Equal(m.Enc, f[1]) || !bytes.Equal(m.MAC, f[2]) || uint64(m.Flag) != n[0] || uint64(m.SKID) != n[1] || uint64(m.RKID) != n[2] || !bytes.Equal(m.Bytes(), ser) {
				report(kind, "the independent codec disagrees")
			}
		case "plain":
			text, tlvs, err := ref.SplitPlain(ser)
			if err != nil || !bytes.Equal(text, f[0]) || len(tlvs) != len(f)-1 {
				report(kind, fmt.Sprintf("the independent codec disagrees (%v)", err))
			} else {
				for i, t := range tlvs {
					if !bytes.Equal(t.Value, f[i+1]) || uint64(t.Type) != n[i] {
						report(kind, fmt.Sprintf("the independent codec reads TLV %d as type %d with %d bytes, sent type %d with %d bytes", i, t.Type, len(t.Value), n[i], len(f[i+1])))
					}
				}
			}
		}
	}
	for i := 0; i < *rounds; i++ {
		for _, version := range []int{2, 3} {
			same("dhcommit", version, [][]byte{blob(70000), blob(64)}, nil)
			same("dhkey", version, [][]byte{mpi()}, nil)
			r16 := make([]byte, 16)
			rng.Read(r16)
			mac := make([]byte, 20)
			rng.Read(mac)
			same("revealsig", version, [][]byte{r16, blob(70000), mac}, nil)
			same("sig", version, [][]byte{blob(70000), mac}, nil)
			f := [][]byte{mpi(), blob(70000), mac}
			for k := rng.Intn(4); k > 0; k-- {
				om := make([]byte, 20)
				rng.Read(om)
				f = append(f, om)
			}
			same("data", version, f, []uint64{uint64(rng.Intn(2)), uint64(rng.Uint32()), uint64(rng.Uint32()), rng.Uint64() | 1})
			same("tlv", version, [][]byte{blob(65535)}, []uint64{uint64(rng.Intn(9))})
			msg := bytes.ReplaceAll(blob(3000), []byte{0}, []byte{1})
			pf := [][]byte{msg}
			var pn []uint64
			for k := rng.Intn(4); k > 0; k-- {
				pf = append(pf, blob(2000))
				pn = append(pn, uint64([]int{0, 1, 2, 3, 4, 5, 6, 7, 8, 9, 255, 65535}[rng.Intn(12)]))
			}
			same("plain", version, pf, pn)
			// records without a value, also as the very last bytes of the plaintext (no padding record after
			// them: how other clients send a disconnect or an SMP abort)
			same("plain", version, [][]byte{msg, {}}, []uint64{uint64([]int{1, 6, 0, 9}[i%4])})
			same("plain", version, [][]byte{{}, {}}, []uint64{uint64([]int{1, 6}[i%2])})
			same("plain", version, [][]byte{msg, blob(300), {}, {}}, []uint64{8, 6, 1})
			m := func(k int) [][]byte {
				out := [][]byte{}
				for j := 0; j < k; j++ {
					out = append(out, mpi())
				}
				return out
			}
			questions := [][]byte{{}, []byte("q"), []byte("¿Cuál es la contraseña?"), []byte("Какой пароль?"), []byte("密码是什么"), bytes.Repeat([]byte("long question "), 300),
				// a question is bytes, not necessarily well-formed UTF-8: Latin-1, a multi-byte character cut short, 0xff
				[]byte("\xbfC\xf3mo se llama el caf\xe9?"), []byte("cut \xe5\xaf"), {0xff, 0xfe, 0x80}, []byte("a\xc3")}
			same("smp1", version, append([][]byte{questions[rng.Intn(len(questions))]}, m(6)...), nil)
			same("smp2", version, m(11), nil)
			same("smp3", version, m(8), nil)
			same("smp4", version, m(3), nil)
		}
	}
	// ---- (c) keys
	keys := 0
	dir, _ := os.MkdirTemp("", "verif-keys-")
	defer os.RemoveAll(dir)
	names := []string{"a", "alice@example.org", "bob.smith+otr@jabber.example.net/home", "user_1-2:3", "UPPER lower 0123456789", "x y  z", "ünïcödé@例え.jp", "semi;colon,comma=eq#hash!bang(paren)",
		// everything but the double quote is permitted and written as it is (no escaping)
		"CORP\\alice", "tab\there", "ctl\x01\x7f", "zero\u200cwidth\u00a0nbsp", "bad-utf8-\xff\xfe", "line\nbreak", "'single' `back`"}
	for i, base := range []string{"A", "B", "E", "X"} {
		priv, rpriv := world.DSAKey(base)
		// wire form and fingerprint input
		ser := priv.Serialize()
		_, ok, parsed := otr3.ParsePrivateKey(ser)
		if !ok || !bytes.Equal(parsed.Serialize(), ser) {
			report("dsa", "private key wire form does not round trip")
		}
		pubser := rpriv.Pub().Bytes()
		rest, okp, pub := otr3.ParsePublicKey(append(append([]byte{}, pubser...), 9, 9))
		if !okp || !bytes.Equal(rest, []byte{9, 9}) || !bytes.Equal(pub.Fingerprint(), rpriv.Pub().Fingerprint()) {
			report("dsa", "public key wire form / fingerprint differ from the specification")
		}
		if !bytes.Equal(priv.PublicKey().Fingerprint(), rpriv.Pub().Fingerprint()) {
			report("dsa", "fingerprint is not SHA-1 of the key without its type tag")
		}
		keys++
		// key files, also with values whose hex form has an odd number of digits or is zero
		for j, xv := range []*big.Int{priv.PrivateKey.X, big.NewInt(0xabc), big.NewInt(0), big.NewInt(1), new(big.Int).Lsh(big.NewInt(1), 159)} {
			k := &otr3.DSAPrivateKey{}
			k.PrivateKey = priv.PrivateKey
			k.PrivateKey.X = xv
			k.DSAPublicKey.PublicKey = k.PrivateKey.PublicKey
			acc := &otr3.Account{Name: names[(i*5+j)%len(names)], Protocol: []string{"prpl-jabber", "xmpp", "libpurple-irc"}[j%3], Key: k}
			fn := filepath.Join(dir, fmt.Sprintf("k%d-%d", i, j))
			if err := otr3.ExportKeysToFile([]*otr3.Account{acc, acc}, fn); err != nil {
				report("keyfile", "export failed: "+err.Error())
				continue
			}
			back, err := otr3.ImportKeysFromFile(fn)
			keys++
			if err != nil || len(back) != 2 {
				report("keyfile", fmt.Sprintf("account %q, x=%x: import of the exported file fails (%v)", acc.Name, xv, err))
				continue
			}
			for _, b := range back {
				bk, _ := b.Key.(*otr3.DSAPrivateKey)
				if b.Name != acc.Name || b.Protocol != acc.Protocol || bk == nil || bk.PrivateKey.X.Cmp(xv) != 0 || bk.PrivateKey.Y.Cmp(k.PrivateKey.Y) != 0 || bk.PrivateKey.P.Cmp(k.PrivateKey.P) != 0 || bk.PrivateKey.Q.Cmp(k.PrivateKey.Q) != 0 || bk.PrivateKey.G.Cmp(k.PrivateKey.G) != 0 {
					report("keyfile", fmt.Sprintf("account %q, x=%x: import(export(k)) differs: name %q protocol %q", acc.Name, xv, b.Name, b.Protocol))
					break
				}
			}
			// re-export parses to the same
			fn2 := fn + "-2"
			_ = otr3.ExportKeysToFile(back, fn2)
			b1, _ := os.ReadFile(fn)
			b2, _ := os.ReadFile(fn2)
			if !bytes.Equal(b1, b2) {
				report("keyfile", fmt.Sprintf("account %q: re-exporting the imported keys gives a different file", acc.Name))
			}
		}
	}
	// ---- (c1) keys whose public value (and private value) have leading zero bytes: about one honest
	// key in 256; the wire form carries integers in minimal form and must still parse to the same key
	{
		priv, _ := world.DSAKey("A")
		P, Q, G := priv.PrivateKey.P, priv.PrivateKey.Q, priv.PrivateKey.G
		found := 0
		for xi := int64(2); xi < 200000 && found < 3; xi++ {
			x := big.NewInt(xi)
			y := new(big.Int).Exp(G, x, P)
			if y.BitLen() > P.BitLen()-8 {
				continue
			}
			found++
			k := &otr3.DSAPrivateKey{}
			k.PrivateKey.P, k.PrivateKey.Q, k.PrivateKey.G, k.PrivateKey.Y, k.PrivateKey.X = P, Q, G, y, x
			k.DSAPublicKey.PublicKey = k.PrivateKey.PublicKey
			ser := k.Serialize()
			_, ok, parsed := otr3.ParsePrivateKey(ser)
			pk, _ := parsed.(*otr3.DSAPrivateKey)
			if !ok || pk == nil || pk.PrivateKey.Y.Cmp(y) != 0 || pk.PrivateKey.X.Cmp(x) != 0 || !bytes.Equal(parsed.Serialize(), ser) {
				report("dsa", fmt.Sprintf("private key with a short public value (y has %d bits) does not round trip through its wire form", y.BitLen()))
			}
			rp := &ref.DSAPub{}
			rp.P, rp.Q, rp.G, rp.Y = P, Q, G, y
			pubser := rp.Bytes()
			if !bytes.Equal(k.PublicKey().Fingerprint(), rp.Fingerprint()) {
				report("dsa", "public key with a short public value is not serialised in minimal form (fingerprint differs)")
			}
			rest, okp, pub := otr3.ParsePublicKey(append(append([]byte{}, pubser...), 7))
			if !okp || !bytes.Equal(rest, []byte{7}) || !bytes.Equal(pub.Fingerprint(), rp.Fingerprint()) {
				report("dsa", fmt.Sprintf("public key with a short public value (y has %d bits) is refused or read differently", y.BitLen()))
			}
			keys++
		}
		if found == 0 {
			report("dsa", "harness: no key with a short public value found")
		}
	}
	// ---- (c2) DSA signatures: the 40-byte wire form (two 20-byte big-endian integers) must verify
	// with the independent implementation, also when r or s have leading zero bytes
	sigs, short := 0, 0
	for _, base := range []string{"A", "B"} {
		priv, rpriv := world.DSAKey(base)
		srng := rand.New(rand.NewSource(*seed + 77))
		for i := 0; i < *rounds*12; i++ {
			h := make([]byte, 32)
			srng.Read(h)
			sig, err := priv.Sign(srng, h)
			if err != nil || len(sig) != 40 {
				report("dsa-sig", fmt.Sprintf("Sign returns %d bytes, %v", len(sig), err))
				continue
			}
			sigs++
			if sig[0] == 0 || sig[20] == 0 {
				short++
			}
			if !rpriv.Pub().Verify(h, sig) {
				report("dsa-sig", fmt.Sprintf("a signature made by the library (r=%x s=%x) does not verify in its wire form", sig[:20], sig[20:]))
			}
			if rest, ok := priv.PublicKey().Verify(h, append(append([]byte{}, sig...), 1, 2, 3)); !ok || !bytes.Equal(rest, []byte{1, 2, 3}) {
				report("dsa-sig", "the library does not verify its own signature in wire form")
			}
			if rs, err := rpriv.Sign(srng, h); err == nil {
				if _, ok := priv.PublicKey().Verify(h, rs); !ok {
					report("dsa-sig", "a signature made by the independent implementation is refused")
				}
			}
		}
	}
	fmt.Printf("CODECSIGS %d leadingzero=%d\n", sigs, short)
	// ---- (d) values that do not fit a 16-bit TLV length: refused, or transmitted intact
	big16 := 0
	for _, version := range []int{2, 3} {
		for _, n := range []int{0, 1, 65531, 65532, 65535, 70000} {
			w := freshWorld(uint64(*seed)+uint64(n), nil, version, "none")
			if !w.Handshake("A") {
				report("session", "handshake failed")
				continue
			}
			data := bytes.Repeat([]byte{0xab}, n)
			nw := len(w.Wire)
			_, key := w.ExtraKey(w.P["A"], 0x01020304, data)
			big16++
			if len(w.Wire) > nw && key != nil {
				m := w.Wire[len(w.Wire)-1]
				ok := false
				if m.Keys != nil {
					h, _ := ref.ParseHeader(rawOf(m))
					d, err := ref.ParseData(h.Body)
					if err == nil {
						_, tlvs, perr := ref.SplitPlain(ref.CTR(m.Keys.SendAES, d.Ctr[:], d.Enc))
						for _, t := range tlvs {
							if perr == nil && t.Type == 8 && bytes.Equal(t.Value, append([]byte{1, 2, 3, 4}, data...)) {
								ok = true
							}
						}
					}
				}
				if !ok {
					report("tlv-length", fmt.Sprintf("v%d UseExtraSymmetricKey with %d bytes of usage data: the TLV on the wire does not carry them (length field and contents disagree)", version, n))
				}
			}
			// SMP question
			q := strings.Repeat("q", n)
			nw = len(w.Wire)
			ev := w.SMPStart(w.P["B"], []byte("s"), q, 1)
			if len(w.Wire) > nw && ev["err"] == false && n > 0 {
				w.Deliver(w.P["A"])
				if got := otr3.VerifProject(w.P["A"].Conv).SMPQuestion; got != q {
					report("tlv-length", fmt.Sprintf("v%d SMP question of %d bytes: the peer is asked a question of %d bytes", version, n, len(got)))
				}
			}
		}
	}
	fmt.Printf("CODECBIG %d\n", big16)
	fmt.Printf("CODECCHECK vectors=%d generated=%d keys=%d violations=%d\n", nvec, gen, keys, viol)
	return 0
}

func head(b []byte) []byte {
	if len(b) > 8 {
		return b[:8]
	}
	return b
}

var _ = strings.Repeat
