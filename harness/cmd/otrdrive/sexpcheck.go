package main

import (
	"bufio"
	"encoding/json"
	"flag"
	"fmt"
	"math/big"
	"os"
	"path/filepath"
	"strings"

	otr3 "github.com/coyim/otr3"
	"github.com/coyim/otr3/sexp"
)

type sexpVec struct {
	Kind string `json:"kind"`
	In   string `json:"in"`
	V    string `json:"v"`
	Pos  int    `json:"pos"`
	End  bool   `json:"end"`
	OK   bool   `json:"ok"`
	// export vectors
	Name     string `json:"name"`
	Protocol string `json:"protocol"`
	P        string `json:"p"`
	Out      string `json:"out"`
	Accs     []struct {
		Name     string            `json:"name"`
		Protocol string            `json:"protocol"`
		Params   map[string]string `json:"params"`
	} `json:"accs"`
}

// renderSexp is the canonical rendering Sexp.tla uses for reader results.
func renderSexp(v sexp.Value) string {
	switch t := v.(type) {
	case nil:
		return "N"
	case sexp.Snil:
		return "()"
	case sexp.Cons:
		return "(" + renderSexp(t.First()) + " . " + renderSexp(t.Second()) + ")"
	case sexp.Symbol:
		return "y:" + string(t)
	case sexp.Sstring:
		return "s:" + string(t)
	case sexp.BigNum:
		b, _ := t.Value().(*big.Int)
		if b == nil {
			return "n:<nil>"
		}
		return fmt.Sprintf("n:%X", b)
	}
	return fmt.Sprintf("?%T", v)
}

func paramString(b *big.Int) string {
	if b == nil {
		return "nil"
	}
	return fmt.Sprintf("n:%X", b)
}

// cmdSexpCheck runs Sexp.tla's vectors through the real s-expression reader and key-file importer:
// the value read, the position the reader stands at, acceptance and the imported accounts must be
// what the specification says; no input may make the reader panic.
func cmdSexpCheck(args []string) int {
	fs := flag.NewFlagSet("sexpcheck", flag.ExitOnError)
	vecs := fs.String("vectors", "", "vectors written by Sexp.tla (JSON per line)")
	fs.Parse(args)
	f, err := os.Open(*vecs)
	if err != nil {
		fmt.Fprintln(os.Stderr, err)
		return 2
	}
	defer f.Close()
	viol, reads, imports, exports := 0, 0, 0, 0
	dir, _ := os.MkdirTemp("", "verif-sexp-")
	defer os.RemoveAll(dir)
	report := func(kind, detail string) {
		viol++
		if viol <= 12 {
			fmt.Printf("SEXPVIOLATION %s %s\n", kind, detail)
		}
	}
	sc := bufio.NewScanner(f)
	sc.Buffer(make([]byte, 1<<20), 1<<24)
	for sc.Scan() {
		var v sexpVec
		if err := json.Unmarshal(sc.Bytes(), &v); err != nil {
			fmt.Fprintln(os.Stderr, "bad vector:", err)
			return 2
		}
		func() {
			defer func() {
				if r := recover(); r != nil {
					report("panic", fmt.Sprintf("kind=%s in=%q: %v", v.Kind, v.In, r))
				}
			}()
			switch v.Kind {
			case "read":
				reads++
				r := bufio.NewReader(strings.NewReader(v.In))
				val, end := sexp.ReadValue(r)
				pos := len(v.In) - r.Buffered()
				if got := renderSexp(val); got != v.V || end != v.End || pos != v.Pos {
					report("read", fmt.Sprintf("in=%q expected value=%q end=%v pos=%d, got value=%q end=%v pos=%d", v.In, v.V, v.End, v.Pos, got, end, pos))
				}
			case "export":
				exports++
				hx := func(s string) *big.Int { b, _ := new(big.Int).SetString(s, 16); return b }
				k := &otr3.DSAPrivateKey{}
				k.PrivateKey.P, k.PrivateKey.Q, k.PrivateKey.G, k.PrivateKey.Y, k.PrivateKey.X = hx(v.P), hx("2"), hx("3"), hx("4"), hx("5")
				k.DSAPublicKey.PublicKey = k.PrivateKey.PublicKey
				acc := &otr3.Account{Name: v.Name, Protocol: v.Protocol, Key: k}
				fn := filepath.Join(dir, "export")
				if err := otr3.ExportKeysToFile([]*otr3.Account{acc, acc}, fn); err != nil {
					report("export", fmt.Sprintf("name=%q: %v", v.Name, err))
					return
				}
				got, _ := os.ReadFile(fn)
				if string(got) != v.Out {
					report("export", fmt.Sprintf("name=%q protocol=%q p=%s: the key file written differs from the specification's:\n%s\nexpected:\n%s", v.Name, v.Protocol, v.P, got, v.Out))
				}
			case "import":
				imports++
				accs, err := otr3.ImportKeys(strings.NewReader(v.In))
				if (err == nil) != v.OK {
					report("import", fmt.Sprintf("in=%q expected accepted=%v, got err=%v", v.In, v.OK, err))
					return
				}
				if !v.OK {
					if accs != nil {
						report("import", fmt.Sprintf("in=%q refused but accounts returned", v.In))
					}
					return
				}
				if len(accs) != len(v.Accs) {
					report("import", fmt.Sprintf("in=%q expected %d accounts, got %d", v.In, len(v.Accs), len(accs)))
					return
				}
				for i, a := range accs {
					e := v.Accs[i]
					if a.Name != e.Name || a.Protocol != e.Protocol {
						report("import", fmt.Sprintf("in=%q account %d: expected name=%q protocol=%q, got %q %q", v.In, i, e.Name, e.Protocol, a.Name, a.Protocol))
						continue
					}
					k, _ := a.Key.(*otr3.DSAPrivateKey)
					if k == nil {
						report("import", fmt.Sprintf("in=%q account %d: no key", v.In, i))
						continue
					}
					got := map[string]string{"p": paramString(k.PrivateKey.P), "q": paramString(k.PrivateKey.Q), "g": paramString(k.PrivateKey.G),
						"y": paramString(k.PrivateKey.Y), "x": paramString(k.PrivateKey.X)}
					for t, ev := range e.Params {
						if ev == "unset" || ev == "n:<nil>" {
							ev = "nil"
						}
						if got[t] != ev {
							report("import", fmt.Sprintf("in=%q account %d: parameter %s expected %s, got %s", v.In, i, t, ev, got[t]))
						}
					}
					// the public half is the private key's
					if k.DSAPublicKey.PublicKey.Y != k.PrivateKey.Y || k.DSAPublicKey.PublicKey.P != k.PrivateKey.P {
						report("import", fmt.Sprintf("in=%q account %d: public key differs from the private key's public part", v.In, i))
					}
				}
			}
		}()
	}
	fmt.Printf("SEXPCHECK vectors=%d reads=%d imports=%d exports=%d violations=%d\n", reads+imports+exports, reads, imports, exports, viol)
	return 0
}
