module verif/harness

go 1.23.0

require github.com/coyim/otr3 v0.0.0

require (
	github.com/awnumar/memcall v0.5.0 // indirect
	github.com/coyim/constbn v0.0.0-20251201142907-b19b950d1e1c // indirect
	golang.org/x/sys v0.35.0 // indirect
)

replace github.com/coyim/otr3 => /repo
