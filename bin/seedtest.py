#!/usr/bin/env python3
"""seedtest.py <patch.diff> <Cxx> [more Cxx...]: apply a seeded change to /repo, run the quick checks, undo."""
import subprocess, sys, os
patch = sys.argv[1]
props = sys.argv[2:]
tier = os.environ.get("TIER", "quick")
r = subprocess.run(["git", "-C", "/repo", "apply", "--check", patch], capture_output=True, text=True)
if r.returncode != 0:
    print("PATCH-CONFLICT", patch, r.stderr.strip()[:300]); sys.exit(3)
subprocess.run(["git", "-C", "/repo", "apply", patch], check=True)
try:
    for p in props:
        q = subprocess.run(["/verif/bin/check", p, tier], capture_output=True, text=True)
        lines = [l for l in q.stdout.splitlines() if l.startswith(("VIOLATION", "KNOWN", "OK", "BROKEN"))]
        print("SEED %s %s rc=%d %s" % (patch, p, q.returncode, " | ".join(l[:160] for l in lines[:3])))
finally:
    subprocess.run(["git", "-C", "/repo", "checkout", "--", "."], check=True)
    subprocess.run(["git", "-C", "/repo", "status", "--short"])
