#!/usr/bin/env python3
"""seedindex.py: write seeded/INDEX.md from the meta.json files."""
import glob, json, os
V = "/verif"
rows = []
for f in sorted(glob.glob(V + "/seeded/*/meta.json")):
    m = json.load(open(f))
    needs = " ".join(m.get("needs", "").split())
    first = needs.split("**Change**")[0][:140] if needs else ""
    title = needs.lstrip("# ").split(" **")[0].split(" Change")[0][:150]
    rows.append((m["id"], m["property"], m["status"], ", ".join(m.get("detected_by", [])) or "-", title))
with open(V + "/seeded/INDEX.md", "w") as fo:
    fo.write("# Seeded changes\n\nEach directory holds `patch.diff` (applies to /repo HEAD with `git apply`), the sub-agent's demonstration "
             "(`demo_test.go`, `README.md`) and `meta.json` (what it needs, how it was confirmed, which checks were run on it and their result).\n"
             "`valid` = on the current (repaired) tree the suite passes with the patch, the demonstration passes without it and fails with it; "
             "`invalid` = no longer so (the change relied on a defect repaired since, or the suite notices it).\n"
             "Ids a/b: first round; c/d, e/f, g/h, i/j, k/l: later rounds on the repaired tree.\n\n| id | status | reported by (quick tier) | what |\n|---|---|---|---|\n")
    for r in rows:
        fo.write("| %s | %s | %s | %s |\n" % (r[0], r[2], r[3], r[4].replace("|", "/")))
    v = [r for r in rows if r[2] == "valid"]
    d = [r for r in v if r[3] != "-"]
    fo.write("\n%d changes, %d valid, %d of the valid ones reported by a quick check.\n" % (len(rows), len(v), len(d)))
print(open(V + "/seeded/INDEX.md").read()[-300:])
