#!/usr/bin/env python3
"""seedall.py [ids...]: confirm every seeded change under /tmp/seed/out-Cxx/{a,b} against the current /repo HEAD,
run the property's quick check on it in a scratch worktree, and file it under /verif/seeded/<Cxx-v>/."""
import json, os, re, shutil, subprocess, sys, glob
V = "/verif"
want = set(sys.argv[1:])
rows = []
# second round (after the repairs): /tmp/seed2/out-Cxx/{a,b} are filed as Cxx-c, Cxx-d
for d in sorted(glob.glob("/tmp/seed/out-C*/[ab]")) + sorted(glob.glob("/tmp/seed2/out-C*/[ab]")) + sorted(glob.glob("/tmp/seed3/out-C*/[ab]")) + sorted(glob.glob("/tmp/seed4/out-C*/[ab]")) + sorted(glob.glob("/tmp/seed5/out-C*/[ab]")) + sorted(glob.glob("/tmp/seed6/out-C*/[ab]")):
    prop = re.search(r"out-(C\d+)", d).group(1)
    letter = os.path.basename(d)
    if d.startswith("/tmp/seed2/"):
        letter = {"a": "c", "b": "d"}[letter]
    if d.startswith("/tmp/seed6/"):
        letter = {"a": "k", "b": "l"}[letter]
    if d.startswith("/tmp/seed5/"):
        letter = {"a": "i", "b": "j"}[letter]
    if d.startswith("/tmp/seed4/"):
        letter = {"a": "g", "b": "h"}[letter]
    if d.startswith("/tmp/seed3/"):
        letter = {"a": "e", "b": "f"}[letter]
    sid = "%s-%s" % (prop, letter)
    if want and sid not in want and prop not in want:
        continue
    if not os.path.exists(os.path.join(d, "patch.diff")):
        continue
    dst = os.path.join(V, "seeded", sid)
    os.makedirs(dst, exist_ok=True)
    for f in ("patch.diff", "demo_test.go", "README.md"):
        if os.path.exists(os.path.join(d, f)):
            shutil.copy(os.path.join(d, f), dst)
    c = subprocess.run([V + "/bin/seedconfirm.sh", dst], capture_output=True, text=True, errors="replace").stdout
    m = re.search(r"CONFIRM \S+ (.*)", c)
    conf = m.group(1).strip() if m else c.strip()[-200:]
    status = "valid" if conf.endswith("VALID") and "INVALID" not in conf else ("conflict" if "PATCH-CONFLICT" in conf else "invalid")
    det = {}
    if status == "valid":
        extra = {"C04-b": ["C14"], "C13-a": ["C12"], "C12-b": ["C13"], "C08-a": ["C18", "C19"], "C10-a": ["C04"], "C09-a": ["C02"]}.get(sid, [])
        for chk in [prop] + extra:
            r = subprocess.run([V + "/bin/seedrun.sh", os.path.join(dst, "patch.diff"), "quick", chk], capture_output=True, text=True, errors="replace").stdout
            mm = re.search(r"rc=(\d+) :: (.*)", r)
            det[chk] = dict(rc=int(mm.group(1)) if mm else -1, first=(mm.group(2)[:300] if mm else r[-300:]))
    readme = open(os.path.join(dst, "README.md")).read() if os.path.exists(os.path.join(dst, "README.md")) else ""
    meta = dict(id=sid, property=prop, status=status, confirmation=conf,
                confirmed_how="bin/seedconfirm.sh: in a scratch worktree of /repo HEAD: demo without patch, full suite with patch, demo with patch",
                detected_by=[k for k, v in det.items() if v["rc"] == 1], runs=det,
                ran=["bin/seedrun.sh seeded/%s/patch.diff quick %s" % (sid, k) for k in det],
                needs=readme.strip()[:1500])
    json.dump(meta, open(os.path.join(dst, "meta.json"), "w"), indent=1)
    rows.append(meta)
    print(sid, status, "detected by", meta["detected_by"], flush=True)
