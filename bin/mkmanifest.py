#!/usr/bin/env python3
"""Regenerates /verif/MANIFEST.json from the table below (kept in one place so it stays valid)."""
import json, os
V = os.path.dirname(os.path.dirname(os.path.abspath(__file__)))
props = [json.loads(l) for l in open(os.path.join(V, "properties.jsonl"))]
ids = [p["id"] for p in props]

CLAIMED = {
 "C14": ("model_checking", "Frag.tla: the sender's piece arithmetic checked by TLC for all lengths and sizes in range and both header lengths (PieceBound, Lossless), the receiver's reassembly automaton over every arrival sequence (next, restart, wrong total, duplicate, illegal index, foreign instance, garbage, whole message in between) with OnlyComplete/ProcessedOnce; every transition's schedule replayed on a real Conversation under v2 and v3 with context and processed messages compared to the model state; the real fragmenter swept over fragment sizes x message lengths (all 65536 sizes, lengths up to 200000, thorough) against the model's arithmetic and an independent reassembler; sender->receiver exhaustively for small lengths; fragment sizes swept inside real sessions", "6/C14"),
 "C11": ("model_checking", "TLC invariants SMPSuccessSound/SMPFailureSound/SMPNotStuck over all interleavings of SMP user calls and deliveries (either initiator, question, abort, restarts, traffic in between, v2 and v3); exported schedules and seeded SMP-heavy runs with secrets ranging over empty, one byte, 64 KiB, all byte values, one-bit and length differences on the real code; a relay between two separately keyed sessions (attacker-run endpoints passing SMP payloads verbatim); outcome events validated against the bound-secret-term rule of the specification", "6/C11"),
 "C12": ("model_checking", "TLC over SMP calls and messages in every state, on the duplicating/reordering/dropping network; on the real code every MPI field of every SMP message replaced by each boundary value (0,1,p-1,p,p+1,q,random,honest+-1), element miscounts, question without terminator, a degenerate message 2 with consistent proofs, each inside a properly authenticated data message, each followed by an honest run that must succeed; panic/time/allocation monitored", "6/C12"),
 "C01": ("model_checking", "TLC invariants AuthInv/AgreeInv on every start pattern and on the reordering/duplicating/dropping network; on the real code: every TLC-exported handshake schedule with tampered copies (every field; every byte and cut in the thorough tier) and tampered replacements of each AKE message, plus an attack catalogue with an active attacker E built from the independent reference (impersonation with and without the victim's key claimed, signature over swapped values, wrong key set, degenerate DH values 0,1,p-1,p,p+1 with the matching shared secret, cross-session replay of both roles, reflection), in a fresh and in an already encrypted victim, v2 and v3; each step validated by TLC against OTR.tla and AuthInv evaluated on the observed state", "6/C01"),
 "C02": ("model_checking", "TLC invariants DeliveredAuthentic/AtMostOnce on the bag network; on the real code: data-phase schedules with tampered copies of every data message (each authenticated field, truncation, extension, key ids, counter, flag), injected plaintext, forgeries re-authenticated with every MAC key disclosed on the wire, reflection; PROP C02 (no plaintext from attacker input unless flagged) and exact conformance of results", "6/C02"),
 "C06": ("model_checking", "every rejected tampered message (copies inserted before every delivery of every exported schedule, AKE, data and lifecycle scenarios) must leave the projected conversation state exactly unchanged (trace property C06), the rest of the schedule must conform to the specification and still complete (C04/C07 properties in the attacked runs)", "6/C06"),
 "C15": ("model_checking", "TLC invariant TagInv; tag substitutions (0, malformed, other valid, swapped) on every message kind in every handshake/data position, foreign-instance-first scenario, own-tag generation under adversarial randomness; ExtractInstanceTags compared with the reference on every wire message and fragment", "6/C15"),
 "C16": ("model_checking", "TLC over all 64x64 policy pairs with attacker-made offers (any version list, query or whitespace tag) and user starts: VersionAllowed/NoForbiddenOnWire/HighestCommon; the driver enumerates policy pairs x offer forms on the real code (all 4096 pairs in the thorough tier), traces validated, committed version checked against max(allowed, offered), pass-through checked byte-exact", "6/C16"),
 "C03": ("model_checking", "TLC invariant NoLeak over lifecycle/policy configurations of OTRModel.tla; every exported schedule and seeded random lifecycle runs executed on the real code and validated by TLC (OTRTrace.tla) with the clear-text property evaluated on every emitted message", "6/C03"),
 "C04": ("model_checking", "TLC invariants NoHonestReject/PrefixOrder/CompleteAtQuiescence over all interleavings of sends and FIFO deliveries within (MaxSend, MaxFlight) bounds, v2 and v3, with ticks and extra-key traffic; every transition's schedule replayed on the real code and each recorded API call validated as a step of OTR.tla; deeper seeded random runs with fragmentation", "6/C04"),
 "C05": ("model_checking", "TLC invariant AtMostOnce on the bag network (reorder, duplicate, drop) after a real handshake; exported schedules and seeded duplicate/replay runs (also across End/re-AKE) executed and validated", "6/C05"),
 "C07": ("model_checking", "TLC temporal property Completes (<>[] both encrypted in one session) under weak fairness of deliveries for every start pattern, plus QuietImpliesDone; every maximal schedule executed on the real code, end-of-run state checked by the trace specification; random start patterns and policies", "6/C07"),
 "C09": ("model_checking", "TLC invariants DisclosedRetired/WireDisclosedRetired/UsedThenDisclosed; the independent reference resolves every disclosed 20-byte key on the wire to its key pair, the trace specification compares with the model and evaluates both halves of the property on the observed behaviour", "6/C09"),
 "C18": ("model_checking", "TLC invariants EncryptedExactly/TransmitOnce over lifecycle operations under several policy sets; schedules replayed, security events, Send results and the texts decrypted from the wire are trace fields", "6/C18"),
 "C19": ("model_checking", "TLC invariant SizeBound on data and bag configurations; per-step size bound evaluated by the trace specification on long ping-pong, one-way, duplicate/replay and lifecycle runs at n, 2n, 4n", "6/C19"),
}
NOTE = "trusted: Go standard library crypto, TLC, the projection hook; secrets and MACs are symbolic in the specification; exhaustive only within the stated constants (see evidence.model_runs), sampled beyond"

checks = []
for i in ids:
    if i in CLAIMED:
        cat, text, ref = CLAIMED[i]
        checks.append(dict(property_id=i, quick_cmd="bin/check %s quick" % i, thorough_cmd="bin/check %s thorough" % i,
                           evidence_file="evidence/%s.json" % i, replay_cmd_template="bin/check %s quick --replay {path}" % i,
                           engine="otr-tla", level_claimed=dict(category=cat, text=text, design_ref="DESIGN.md section " + ref),
                           level_note=NOTE, technique="TLA+ specification checked by TLC; schedules replayed on the real code; recorded traces validated against the specification by TLC"))
na = [dict(property_id=i, reason="check not built yet (framework under construction)") for i in ids if i not in CLAIMED]
hooks = [l.split()[0] for l in os.popen("git -C /repo log --format='%h %s' -- verif_hooks.go").read().splitlines()]
m = dict(version=1,
         setup_cmd="cd /verif/harness && cp /repo/go.sum . && GOFLAGS=-mod=mod GOPROXY=off GOSUMDB=off GOTOOLCHAIN=local go build -tags verif -o bin/otrdrive ./cmd/otrdrive",
         hooks=dict(guard="verif", enable="go build -tags verif (the harness module replaces github.com/coyim/otr3 => /repo); the only hook file is /repo/verif_hooks.go",
                    baseline_off_cmd="cd /repo && GOFLAGS=-mod=mod GOPROXY=off GOSUMDB=off GOTOOLCHAIN=local go test -vet=off -count=1 ./...",
                    source_commits=hooks, add_only=True),
         engines=[dict(name="otr-tla", path="spec/OTR.tla", serves_properties=sorted(CLAIMED), kind_free_text="TLA+ specification (OTR.tla, OTRModel.tla, OTRTrace.tla) checked with TLC; Go driver harness/ executes TLC-exported and seeded schedules on real Conversations and records NDJSON traces that TLC validates")],
         checks=checks,
         notes="bin/check <id> <tier>: exit 0 held / only known findings, 1 VIOLATION, 2 check could not run. known_findings.json lists open findings (with signatures) and fixed defects.",
         not_applicable=na)
json.dump(m, open(os.path.join(V, "MANIFEST.json"), "w"), indent=1)
print("claimed", sorted(CLAIMED), "n/a", len(na))
