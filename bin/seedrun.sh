#!/bin/bash
# seedrun.sh <patch.diff> <tier> <Cxx>...  : try a seeded change in a scratch worktree (never in /repo)
P=$1; TIER=$2; shift 2
W=$(mktemp -d /tmp/seedrun-XXXX)
git -C /repo worktree add -q --detach $W/wt HEAD || exit 3
if ! git -C $W/wt apply $P 2>$W/err; then echo "PATCH-CONFLICT $P $(head -1 $W/err)"; git -C /repo worktree remove --force $W/wt; rm -rf $W; exit 3; fi
for c in "$@"; do
  out=$(VERIF_REPO=$W/wt VERIF_EVIDENCE_DIR=$W/ev /verif/bin/check $c $TIER 2>$W/log.$c)
  rc=$?
  echo "SEED $P $c rc=$rc :: $(echo "$out" | grep -E '^(VIOLATION|KNOWN|OK|BROKEN|  )' | head -4 | cut -c1-220 | tr '\n' '|')"
done
git -C /repo worktree remove --force $W/wt; rm -rf $W
