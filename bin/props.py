"""Per-property check definitions."""
import json, os, sys, time, shutil, hashlib, subprocess
import vlib
from vlib import Broken, log

OBSERVABLES = {"out", "plain", "err", "evs", "panic"}

ASSUME_COMMON = [
    "cryptographic primitives (Go standard library SHA-1/SHA-256/AES/HMAC/DSA/math/big) are correct; secrets are named, not computed, in the specification",
    "the projection hook (/repo/verif_hooks.go, build tag verif) reports the conversation's fields faithfully",
    "exhaustive exploration is within the stated constants; beyond them behaviours are sampled with seeded random schedules",
]


class Ctx:
    def __init__(self, pid, tier, seed):
        self.pid, self.tier, self.seed = pid, tier, seed
        self.work = vlib.scratch()
        self.kf = vlib.kf_flags()
        self.known = vlib.open_findings()
        self.states = 0
        self.transitions = 0
        self.model_runs = []
        self.traces_validated = 0
        self.events = 0
        self.schedules = 0
        self.samples = []
        self.findings = []      # violations of this property (dicts)
        self.drift = []
        self.known_hits = {}
        self.sched_of_trace = {}
        self.exhaustive = True
        self.extra_cov = {}
        self.assumptions = list(ASSUME_COMMON)
        self.level = "model_checking"
        self.distinct = set()
        self.other_props = {}
        # C06: genuine traffic must be handled as if the rejected messages had never arrived, so
        # a lost text or a stalled key exchange in its (attacked) runs is its violation too
        self.also_props = {"C06": {"C04", "C07"}}.get(pid, set())
        # projected fields that are visible through the public API for this property
        self.obs_state = {"C01": {"sess", "peer", "ms", "rev"}, "C15": {"ttag", "otag", "ver"},
                          "C07": {"ms", "sess", "peer"}, "C03": {"ms"}, "C16": {"ver"},
                          # the state the property itself speaks about: what is retained (C08: texts and exponents;
                          # C19: everything that grows), the SMP state machine (C11, C12), the fragment context (C14)
                          "C08": {"rsq", "pend", "cur", "prev", "ax"}, "C19": {"rsq", "pend", "ctrs", "macs", "frag"},
                          "C11": {"smp", "sess"}, "C12": {"smp"}, "C14": {"frag"},
                          # the replay counters (C05), the MAC keys recorded / awaiting disclosure (C09), the resend queue (C18)
                          "C05": {"ctrs", "rsq"}, "C10": {"sess", "ms"},
                          # a MAC key queued for disclosure is a key anybody will be able to forge with
                          "C02": {"pend", "rsq"}, "C09": {"macs", "pend"}, "C18": {"ms", "rsq", "rsf"}}.get(pid, set())

    def quick(self):
        return self.tier != "thorough"

    def cleanup(self):
        if os.environ.get("VERIF_KEEP"):
            log("[keep] work dir " + self.work)
            return
        shutil.rmtree(self.work, ignore_errors=True)
        vlib.cleanup_private()

    # -- model -------------------------------------------------------------
    def model(self, name, consts, invariants=(), properties=(), spec="Spec", kf=None, timeout=1200, workers=None, constraint=None):
        """TLC on the intended design (kf None: all deviations off)."""
        r = vlib.model_check(name, consts, invariants, properties, spec=spec, kf=kf or {}, timeout=timeout,
                             workers=workers or vlib.NCPU, constraint=constraint)
        self.model_runs.append(dict(name=name, states=r["states"], transitions=r["transitions"], consts=consts,
                                    invariants=list(invariants), properties=list(properties), error=r["error"]))
        if r["rc"] == -9:
            # the thorough tier explores as deep as its time budget allows: every state visited (breadth
            # first) satisfied the invariants; a liveness property needs the whole graph
            if self.quick() or properties or not r.get("partial") or not r["states"]:
                raise Broken("TLC timed out on %s" % name)
            self.model_runs[-1]["partial"] = "time budget of %ds reached; breadth-first exploration up to the states counted" % timeout
            self.exhaustive = False
            r["rc"] = 0
        if r["error"] and kf is None:
            raise Broken("specification-level counterexample on the intended design in %s (a defect of the model, not a verdict about the code): %s\n%s" % (name, r["error"], r.get("tail", "")[-3000:]))
        self.states += r["states"]
        self.transitions += r["transitions"]
        return r

    def model_expect_violation(self, name, consts, invariants=(), properties=(), kf=None, spec="Spec", timeout=600):
        """Non-vacuity: with the deviation on, the property must fail in the model."""
        r = vlib.model_check(name, consts, invariants, properties, spec=spec, kf=kf, timeout=timeout, workers=vlib.NCPU)
        self.model_runs.append(dict(name=name, states=r["states"], transitions=r["transitions"], consts=consts,
                                    expect="violation", error=r["error"]))
        if not r["error"]:
            raise Broken("sanity: %s should violate %s with %s but TLC found no counterexample" % (name, invariants or properties, kf))
        return r

    # -- binding -----------------------------------------------------------
    def export_validate(self, name, consts, fam, timeout=1200, drain=False, maxsched=None, extra=()):
        stats, scheds = vlib.export_schedules(name, consts, self.kf, workers=vlib.NCPU, timeout=timeout)
        recs = [vlib.sched_record(s, consts, "%s-%d" % (name, i), fam) for i, s in enumerate(scheds)]
        # every maximal behaviour is replayed unless there are more than the tier can afford
        maxsched = maxsched or (4000 if self.quick() else 20000)
        if maxsched and len(recs) > maxsched:
            import random
            rnd = random.Random(self.seed)
            recs = rnd.sample(recs, maxsched)
            self.exhaustive = False
        self.states += stats["states"]
        self.transitions += stats["transitions"]
        self.model_runs.append(dict(name=name + "/export", states=stats["states"], transitions=stats["transitions"],
                                    consts=consts, schedules=len(recs)))
        self.run_validate(recs, tag=name, drain=drain, extra=extra)

    def export_tamper_validate(self, name, consts, fam, per_msg=12, allpos=False, maxsched=200, timeout=1200, replace=False):
        """Schedules exported by TLC, with attacker steps inserted before every delivery: copies of the
        message in flight, each tampered in one field/byte/cut (TamperAll), are delivered first; with
        replace=True single tampered forms replace the genuine message (one run per choice)."""
        import random
        stats, scheds = vlib.export_schedules(name, consts, self.kf, workers=vlib.NCPU, timeout=timeout)
        self.states += stats["states"]
        self.transitions += stats["transitions"]
        rnd = random.Random(self.seed)
        if len(scheds) > maxsched:
            scheds = rnd.sample(scheds, maxsched)
            self.exhaustive = False
        recs = []
        # with a drained prelude (data-phase scenarios) the attacker starts after the set-up
        skip = 0
        if (consts.get("Setup") == "ake" or consts.get("PreludeDrain")) and len(scheds) > 1:
            first = scheds[0]
            skip = len(first)
            for sc2 in scheds[1:]:
                k = 0
                while k < min(skip, len(sc2)) and sc2[k] == first[k]:
                    k += 1
                skip = k
        for i, steps in enumerate(scheds):
            if not replace:
                out = []
                for k, st in enumerate(steps):
                    if k >= skip and st["a"] in ("Deliver", "DeliverAt", "DupAt"):
                        t = dict(a="TamperAll", p=st["p"], t=per_msg, z=2, i=i)
                        if allpos:
                            t["q"] = True
                        out.append(t)
                    out.append(st)
                recs.append(vlib.sched_record(out, consts, "%s-t%d" % (name, i), fam))
            else:
                dels = [k for k, st in enumerate(steps) if st["a"] == "Deliver" and k >= skip]
                for k in dels:
                    for v in range(per_msg):
                        out = list(steps)
                        out[k] = dict(a="TamperOne", p=steps[k]["p"], i=rnd.randrange(1000))
                        recs.append(vlib.sched_record(out, consts, "%s-r%d-%d-%d" % (name, i, k, v), fam))
        if replace and len(recs) > maxsched * 4:
            recs = rnd.sample(recs, maxsched * 4)
        self.model_runs.append(dict(name=name + "/tamper", states=stats["states"], transitions=stats["transitions"],
                                    consts=consts, schedules=len(recs), per_message=per_msg, all_positions=allpos, replace=replace))
        self.run_validate(recs, tag=name + ("-rep" if replace else "-tam"), drain=True)

    def run_validate(self, recs, tag, drain=False, extra=()):
        if not recs:
            return
        d = os.path.join(self.work, tag)
        os.makedirs(d, exist_ok=True)
        args = list(extra)
        if drain:
            args.append("-drain")
        traces, outs = vlib.drive(recs, self.seed, d, tag="t", extra_args=args)
        while vlib.CRASHES:
            self.findings.append(dict(kind="GO", reason=vlib.CRASHES.pop(0), trace=None, line=0, ev="run", p="-", run=None, idx=None))
        for o in outs:
            for line in o.splitlines():
                if line.startswith("PANIC"):
                    log("[drive] " + line[:300])
        for tf in traces:
            self.sched_of_trace[tf] = tf[:-6] + ".sched"
        if len(self.samples) < 3:
            self.samples.append(dict(schedule=recs[0]))
        self.schedules += len(recs)
        reports, lines = vlib.validate_traces(traces, self.kf)
        self.events += lines
        self.traces_validated += len(recs)
        self.classify(reports)

    def random_validate(self, family, n, depth, tag=None, extra=(), run_extra=()):
        tag = tag or ("rnd-" + family)
        d = os.path.join(self.work, tag)
        os.makedirs(d, exist_ok=True)
        per = max(1, n // vlib.NCPU)
        jobs = []
        for i in range(min(vlib.NCPU, n)):
            sf = os.path.join(d, "r-%02d.sched" % i)
            jobs.append(([vlib.BIN, "gen", "-family", family, "-n", str(per), "-depth", str(depth),
                          "-seed", str(self.seed * 1000 + i), "-out", sf] + list(extra), sf))
        recs = []
        for cmd, sf in jobs:
            p = subprocess.run(cmd, capture_output=True, text=True)
            if p.returncode != 0:
                raise Broken("schedule generator failed: " + p.stderr[-1000:])
            recs += [json.loads(l) for l in open(sf)]
        self.exhaustive = False
        self.run_validate(recs, tag=tag, drain=True, extra=run_extra)

    def attack_catalogue(self, kind):
        """Scenarios with an active attacker E (own DSA key, own DH exponents, messages built by the
        independent reference): impersonation, degenerate DH values, cross-session replay, forgeries
        with disclosed MAC keys. Executed on the real code, validated like every other trace."""
        d = os.path.join(self.work, "atk-" + kind)
        os.makedirs(d, exist_ok=True)
        tf = os.path.join(d, "attacks.trace")
        out = vlib.run_driver(["attacks", "-kind", kind, "-out", tf, "-seed", str(self.seed)] + ([] if self.quick() else ["-deep"]))
        n = 0
        for line in out.splitlines():
            if line.startswith("RUN"):
                n = int(line.split("schedules=")[1].split()[0])
        self.sched_of_trace[tf] = None
        reports, lines = vlib.validate_traces([tf], self.kf)
        self.events += lines
        self.traces_validated += n
        self.schedules += n
        self.classify(reports)

    # -- classification ------------------------------------------------------
    def classify(self, reports):
        for r in reports:
            if r["kind"] == "PROP":
                if r["prop"] != self.pid and r["prop"] not in self.also_props:
                    self.other_props[(r["prop"], r["reason"])] = self.other_props.get((r["prop"], r["reason"]), 0) + 1
                    continue
                self.add_finding(dict(kind="PROP", reason=r["reason"], trace=r["trace"], line=r["line"], ev=r["ev"], p=r["p"],
                                      changed=sorted(r.get("changed") or []), atk=r.get("atk", "")))
            else:
                obs = sorted(set(r["fields"]) & (OBSERVABLES | self.obs_state))
                if obs:
                    self.add_finding(dict(kind="MISMATCH", reason="implementation deviates from the specification in " + ",".join(obs),
                                          fields=r["fields"], expected=r.get("expected"), observed=r.get("observed"),
                                          trace=r["trace"], line=r["line"], ev=r["ev"], p=r["p"]))
                else:
                    self.drift.append(r)

    def add_finding(self, f):
        run, idx = vlib.run_of_line(f["trace"], f["line"])
        f["run"] = run
        f["idx"] = idx
        kid = match_known(self.known, {self.pid} | self.also_props, f)
        if kid:
            self.known_hits.setdefault(kid, []).append(f)
        else:
            self.findings.append(f)

    def replay_file(self, f):
        os.makedirs(os.path.join(vlib.VERIF, "replays"), exist_ok=True)
        if f.get("kind") in ("FRAG", "GO"):
            path = os.path.join(vlib.VERIF, "replays", "%s-%s.json" % (self.pid, hashlib.sha1(f["reason"].encode()).hexdigest()[:12]))
            json.dump(dict(property=self.pid, reason=f["reason"], kind=f["kind"]), open(path, "w"), indent=1)
            return path
        sched = None
        sf = self.sched_of_trace.get(f["trace"])
        if sf and f.get("run"):
            # the run's position within its trace file = schedule index
            runs = vlib.load_trace_runs(f["trace"])
            for i, r in enumerate(runs):
                if r is f["run"] or (r and f["run"] and r[0] == f["run"][0] and len(r) == len(f["run"]) and r[-1] == f["run"][-1]):
                    lines = open(sf).read().splitlines()
                    if i < len(lines):
                        sched = json.loads(lines[i])
                    break
        body = dict(property=self.pid, reason=f["reason"], kind=f["kind"], schedule=sched,
                    seed=(f["run"][0].get("seedfull") if f.get("run") else None),
                    event=(f["run"][f["idx"]] if f.get("run") and f.get("idx") is not None and f["idx"] < len(f["run"]) else None),
                    expected=f.get("expected"), observed=f.get("observed"))
        h = hashlib.sha1(json.dumps(body, sort_keys=True, default=str).encode()).hexdigest()[:12]
        path = os.path.join(vlib.VERIF, "replays", "%s-%s.json" % (self.pid, h))
        json.dump(body, open(path, "w"), indent=1, default=str)
        return path

    # -- verdict ---------------------------------------------------------------
    def second_pass(self):
        """Only internal projected fields deviate from the specification: validate those traces again
        without re-synchronising the specification's state after each event.  If the deviation has a
        consequence, the calls that follow return something the specification (evolving by its own
        rules from the same inputs) does not."""
        files = []
        for r in self.drift:
            if r["trace"] not in files and os.path.exists(r["trace"]):
                files.append(r["trace"])
        files = files[:8]
        if not files:
            return
        reports, _ = vlib.validate_traces(files, self.kf, noresync=True)
        drift_before = self.drift
        self.drift = []
        for r in reports:
            if r["kind"] == "MISMATCH":
                r = dict(r, fields=sorted(set(r["fields"]) & (OBSERVABLES | self.obs_state)))
                if not r["fields"]:
                    continue
            self.classify([r])
        for f in self.findings:
            f["reason"] += " (second pass: the specification's state was not re-synchronised after an internal deviation in %s)" % (drift_before[0]["fields"],)
        self.drift = drift_before

    def finish(self, wall):
        if not self.findings and self.drift:
            try:
                self.second_pass()
            except Broken as e:
                log("[second pass] " + str(e)[:300])
        for kid, hits in sorted(self.known_hits.items()):
            e = [x for x in self.known["open"] if x["id"] == kid][0]
            print("KNOWN-FINDING: property=%s %s: %s (%d occurrences in this run)" % (self.pid, kid, e["what"], len(hits)))
        seen = set()
        nviol = 0
        if os.environ.get("VERIF_VERBOSE"):
            import collections
            for k, v in sorted(self.other_props.items()):
                print("  OTHER-PROPERTY x%d %s" % (v, k))
            cnt = collections.Counter()
            for f in self.findings:
                m = (f.get("run") or [{}])[f["idx"]].get("m", {}) if f.get("run") and f.get("idx") is not None else {}
                cnt[(f["kind"], f["reason"][:60], tuple(f.get("changed") or f.get("fields") or []), f.get("atk", ""), m.get("t"), m.get("why", ""))] += 1
            for k, v in sorted(cnt.items(), key=str):
                print("  FINDING x%d %s" % (v, k))
        for f in self.findings:
            key = (f["kind"], f["reason"], f.get("ev"), tuple(f.get("changed") or []))
            if key in seen:
                continue
            seen.add(key)
            nviol += 1
            path = self.replay_file(f)
            print("VIOLATION property=%s replay=%s" % (self.pid, path))
            print("  %s at event %s of %s: %s" % (f["kind"], f.get("ev"), f.get("p"), f["reason"]))
            if f.get("expected") is not None:
                print("  expected: %s" % json.dumps(f["expected"])[:600])
                print("  observed: %s" % json.dumps(f["observed"])[:600])
        cov = dict(states=self.states, transitions=self.transitions,
                   traces_validated_against_impl=self.traces_validated,
                   samples=self.samples or [dict(note="no schedule executed")],
                   evaluations=self.events, distinct_nontrivial=len(self.distinct) if self.distinct else self.schedules,
                   rule="one evaluation = one public API call of a real Conversation recorded and validated by TLC against OTR.tla; distinct = schedules (maximal TLC-exported paths plus seeded random runs) executed",
                   exhaustive=self.exhaustive, model_runs=self.model_runs,
                   known_findings_seen=sorted(self.known_hits.keys()), drift_reports=len(self.drift))
        cov.update(self.extra_cov)
        vlib.write_evidence(self.pid, "thorough" if self.tier == "thorough" else "quick", self.seed, self.level, cov, wall,
                            nviol, self.assumptions)
        if nviol:
            return 1
        if self.drift:
            d = self.drift[0]
            print("BROKEN property=%s: the implementation's internal state deviates from the specification on fields %s "
                  "that are not observables of the property (model drift; first at %s line %s) — specification and code must be reconciled"
                  % (self.pid, d["fields"], d["trace"], d["line"]))
            print("  expected: %s" % json.dumps(d.get("expected"))[:600])
            print("  observed: %s" % json.dumps(d.get("observed"))[:600])
            return 2
        print("OK property=%s tier=%s states=%d transitions=%d traces=%d events=%d wall=%.1fs" %
              (self.pid, self.tier, self.states, self.transitions, self.traces_validated, self.events, wall))
        return 0


# ---------------------------------------------------------------------------
# known findings

def run_has(run, pred):
    return any(pred(e) for e in run or [] if e.get("ev") not in ("Init", "Done"))


SIGS = {
    # D1: some DH-Commit was received while awaiting a DH-Key and our hash was higher
    "collision_winner": lambda f: run_has(f.get("run"), lambda e: e["ev"] == "Recv" and e["m"].get("t") == "DHC" and e.get("hi") and e["st"]["auth"] == "awRevSig"),
    "any": lambda f: True,
}


def match_known(known, pid, f):
    for e in known.get("open", []):
        if e["property"] not in pid:
            continue
        if e.get("reason") and e["reason"] != f["reason"]:
            continue
        if e.get("kind") and e["kind"] != f["kind"]:
            continue
        sig = SIGS.get(e.get("sig", "any"))
        if sig and sig(f):
            return e["id"]
    return None


# ---------------------------------------------------------------------------
# properties

DATA33 = dict(PolA=3, PolB=3, Setup="ake")


def c04(ctx):
    inv = ["NoHonestReject", "PrefixOrder", "CompleteAtQuiescence"]
    if ctx.quick():
        ctx.model("c04-v3-3x3", dict(DATA33, MaxSend=3, MaxFlight=3), inv)
        ctx.model("c04-v2-3x2", dict(PolA=1, PolB=1, Setup="ake", MaxSend=3, MaxFlight=2), inv)
        ctx.model("c04-tick", dict(DATA33, MaxSend=2, MaxFlight=2, MaxTick=2, MaxExtra=1), inv)
        ctx.export_validate("c04x-v3", dict(DATA33, MaxSend=2, MaxFlight=2, MaxTick=1), "fifo-data", drain=True)
        ctx.export_validate("c04x-v2", dict(PolA=1, PolB=3, Setup="ake", MaxSend=2, MaxFlight=2), "fifo-data", drain=True)
        ctx.random_validate("data", 48, 60)
        ctx.random_validate("fragsweep", 16, 30)
        ctx.random_validate("lensweep", 16, 8)
        # the session is re-keyed (a new key exchange inside it) between bursts of traffic: key ids start over,
        # nothing of the replaced session's keys may be used again
        ctx.random_validate("rekey", 32, 4)
        frag_model(ctx, sender=False)
    else:
        ctx.model("c04-v3-5x4", dict(DATA33, MaxSend=5, MaxFlight=4), inv)
        ctx.model("c04-v2-4x4", dict(PolA=1, PolB=1, Setup="ake", MaxSend=4, MaxFlight=4), inv)
        ctx.model("c04-tick", dict(DATA33, MaxSend=3, MaxFlight=3, MaxTick=2, MaxExtra=2), inv)
        ctx.export_validate("c04x-v3", dict(DATA33, MaxSend=3, MaxFlight=3, MaxTick=1, MaxExtra=1), "fifo-data", drain=True)
        ctx.export_validate("c04x-v2", dict(PolA=1, PolB=3, Setup="ake", MaxSend=3, MaxFlight=3), "fifo-data", drain=True)
        ctx.random_validate("data", 400, 200)
        ctx.random_validate("fragsweep", 64, 120)
        ctx.random_validate("lensweep", 64, 16)
        ctx.random_validate("rekey", 320, 8)
        frag_model(ctx, sender=False)


def c05(ctx):
    inv = ["AtMostOnce", "DeliveredAuthentic"]
    bag = dict(DATA33, NetMode="bag")
    if ctx.quick():
        ctx.model("c05-bag-2x2", dict(bag, MaxSend=2, MaxFlight=2, MaxDup=2, MaxDrop=1), inv)
        ctx.export_validate("c05x-bag", dict(bag, MaxSend=2, MaxFlight=2, MaxDup=1), "bag", drain=True, maxsched=2500)
        ctx.random_validate("bag", 64, 60)
        # over a conversation's life (End, the peer's disconnect, new sessions): nothing is shown twice
        ctx.random_validate("life", 48, 60)
        ctx.random_validate("errlife", 32, 60)
    else:
        ctx.model("c05-bag-3x3", dict(bag, MaxSend=3, MaxFlight=3, MaxDup=2, MaxDrop=1), inv, timeout=2400)
        ctx.model("c05-bag-v2", dict(PolA=1, PolB=1, Setup="ake", NetMode="bag", MaxSend=2, MaxFlight=2, MaxDup=3, MaxDrop=1), inv)
        ctx.export_validate("c05x-bag", dict(bag, MaxSend=2, MaxFlight=2, MaxDup=2), "bag", drain=True, maxsched=12000)
        ctx.random_validate("bag", 480, 150)
        ctx.random_validate("bagsess", 160, 120)
        ctx.random_validate("life", 320, 120)
        ctx.random_validate("errlife", 160, 120)


def c09(ctx):
    inv = ["DisclosedRetired", "WireDisclosedRetired", "UsedThenDisclosed"]
    if ctx.quick():
        ctx.model("c09-3x3", dict(DATA33, MaxSend=3, MaxFlight=3), inv)
        ctx.model("c09-tick", dict(DATA33, MaxSend=2, MaxFlight=2, MaxTick=2, MaxExtra=1), inv)
        ctx.export_validate("c09x", dict(DATA33, MaxSend=2, MaxFlight=2, MaxTick=1), "fifo-data", drain=True)
        ctx.random_validate("data", 48, 80)
        ctx.random_validate("oneway", 16, 80)
        ctx.random_validate("rekey", 48, 4)
        ctx.random_validate("life", 48, 60)
        # a failed rotation (randomness source) must not put live keys on the disclosure list
        ctx.random_validate("randfail", 64, 90)
        # duplicates: a refused copy must not cost the accepted original's MAC key its disclosure
        ctx.random_validate("bag", 32, 60)
    else:
        ctx.random_validate("bag", 320, 150)
        ctx.random_validate("randfail", 640, 90)
        ctx.model("c09-5x4", dict(DATA33, MaxSend=5, MaxFlight=4), inv)
        ctx.model("c09-tick", dict(DATA33, MaxSend=3, MaxFlight=3, MaxTick=2, MaxExtra=2), inv)
        ctx.model("c09-bag", dict(DATA33, NetMode="bag", MaxSend=2, MaxFlight=2, MaxDup=2, MaxDrop=1), inv)
        ctx.export_validate("c09x", dict(DATA33, MaxSend=3, MaxFlight=3, MaxTick=1, MaxExtra=1), "fifo-data", drain=True)
        ctx.random_validate("data", 320, 200)
        ctx.random_validate("oneway", 64, 200)
        ctx.random_validate("life", 160, 120)
        ctx.random_validate("rekey", 480, 8)
        ctx.model("c09-refresh", dict(DATA33, MaxSend=2, MaxFlight=3, MaxTick=2, MaxQuery=1), inv, timeout=2400)


def ratchet_unbounded(ctx):
    """Ratchet.tla: the bound on the tables indexed by key-id pairs is an inductive invariant for unbounded key ids
    (Apalache); a mutant without the pruning must fail (non-vacuity).  The module is bound to OTR.tla by the
    action property RatchetRefines (TLC) and to the code by the trace property of OTRTrace.tla."""
    import re as _re
    d = os.path.join(ctx.work, "apalache")
    os.makedirs(d, exist_ok=True)
    src = open(os.path.join(vlib.SPEC, "Ratchet.tla")).read()
    open(os.path.join(d, "Ratchet.tla"), "w").write(src)
    mut = src.replace("MODULE Ratchet", "MODULE RatchetMut").replace("!.ctrs = {c \\in @ : c[1] >= a1.oid}, ", "")
    if mut.count("c[1] >= a1.oid"):
        raise Broken("Ratchet.tla mutant could not be made")
    open(os.path.join(d, "RatchetMut.tla"), "w").write(mut)
    runs = [("Ratchet.tla", "IndInit", "IndInv", 1, True), ("Ratchet.tla", "Init", "IndInv", 0, True), ("Ratchet.tla", "IndInit", "SizeInv", 0, True),
            ("RatchetMut.tla", "IndInit", "IndInv", 1, False)]

    def one(r):
        mod, init, inv, length, expect = r
        out = os.path.join(d, "out-%s-%s-%s" % (mod, init, inv))
        try:
            p = subprocess.run(["apalache-mc", "check", "--init=" + init, "--inv=" + inv, "--length=%d" % length, "--out-dir=" + out, "--run-dir=" + out, mod],
                               cwd=d, capture_output=True, text=True, timeout=900)
            txt = p.stdout + p.stderr
        except subprocess.TimeoutExpired:
            raise Broken("apalache timed out on %s %s" % (mod, inv))
        ok = "The outcome is: NoError" in txt
        bad = "The outcome is: Error" in txt
        if not ok and not bad:
            raise Broken("apalache did not decide %s %s/%s:\n%s" % (mod, init, inv, txt[-1500:]))
        return r, ok
    from concurrent.futures import ThreadPoolExecutor
    with ThreadPoolExecutor(2) as ex:
        res = list(ex.map(one, runs))
    for (mod, init, inv, length, expect), ok in res:
        ctx.model_runs.append(dict(name="apalache/%s/%s=>%s" % (mod, init, inv), tool="apalache-mc 0.58 (symbolic, unbounded integers)", length=length,
                                   outcome="NoError" if ok else "Error", expect="NoError" if expect else "Error (mutant without pruning: non-vacuity)"))
        if ok != expect:
            raise Broken("Ratchet.tla: %s --init=%s --inv=%s gave %s" % (mod, init, inv, "NoError" if ok else "Error"))
    log("[apalache] Ratchet.tla: inductive invariant holds (Init => IndInv, IndInv /\\ Next => IndInv', IndInv => SizeInv); mutant rejected")
    ctx.extra_cov["ratchet_inductive_invariant"] = "proved by Apalache for unbounded key ids; OTR.tla refines Ratchet.tla (TLC, RatchetRefines); every observed step is a Ratchet step (trace property)"


def c19(ctx):
    inv = ["SizeBound"]
    ratchet_unbounded(ctx)
    ctx.model("c19-refines", dict(DATA33, MaxSend=2 if ctx.quick() else 3, MaxFlight=2, MaxQuery=1, MaxEnd=1), [], ["RatchetRefines"])
    ctx.model("c19-refines-bag", dict(DATA33, NetMode="bag", MaxSend=2, MaxFlight=2, MaxDup=1, MaxDrop=1, MaxAtk=1), [], ["RatchetRefines"])
    if ctx.quick():
        ctx.model("c19-3x3", dict(DATA33, MaxSend=3, MaxFlight=3), inv)
        ctx.model("c19-bag", dict(DATA33, NetMode="bag", MaxSend=2, MaxFlight=2, MaxDup=2, MaxDrop=1), inv)
        for n in (50, 100, 200):
            ctx.random_validate("pingpong", 2, n, tag="pp%d" % n)
            ctx.random_validate("oneway", 2, n, tag="ow%d" % n)
        ctx.random_validate("bag", 16, 100)
        # key exchanges repeated inside a session while one side is silent: what waits for disclosure is carried over once
        ctx.random_validate("rekey", 32, 4)
        # forged traffic: nothing an unauthenticated message names (key ids, key pairs) may be kept
        ctx.export_tamper_validate("c19-forged", dict(DATA33, MaxSend=2, MaxFlight=2), "fifo-data", per_msg=12, maxsched=40)
    else:
        ctx.export_tamper_validate("c19-forged", dict(DATA33, MaxSend=3, MaxFlight=2), "fifo-data", per_msg=0, allpos=True, maxsched=150)
        ctx.model("c19-5x4", dict(DATA33, MaxSend=5, MaxFlight=4), inv)
        ctx.model("c19-bag", dict(DATA33, NetMode="bag", MaxSend=3, MaxFlight=2, MaxDup=2, MaxDrop=1), inv)
        for n in (400, 800, 1600):   # validation time grows with the square of the length (history variables)
            ctx.random_validate("pingpong", 2, n, tag="pp%d" % n)
            ctx.random_validate("oneway", 2, n, tag="ow%d" % n)
        ctx.random_validate("bag", 64, 400)
        ctx.random_validate("life", 64, 400)
        ctx.random_validate("rekey", 320, 8)


LIFE = [dict(PolA=a, PolB=b) for a, b in ((3, 3), (7, 3), (3 | 8, 3 | 16), (7 | 32, 3 | 32), (1, 3), (2 | 4, 3 | 4))]


def c18(ctx):
    inv = ["EncryptedExactly", "TransmitOnce"]
    cfgs = LIFE[:3] if ctx.quick() else LIFE
    for i, pol in enumerate(cfgs):
        c = dict(pol, MaxSend=1 if ctx.quick() else 2, MaxFlight=3, MaxQuery=1, MaxEnd=1, MaxTick=0 if ctx.quick() else 1)
        ctx.model("c18-life%d" % i, c, inv, timeout=1800)
    ctx.export_validate("c18x", dict(PolA=7, PolB=3, MaxSend=1, MaxFlight=3, MaxQuery=1, MaxEnd=1), "life", drain=True,
                        maxsched=2500 if ctx.quick() else 20000)
    ctx.random_validate("life", 64 if ctx.quick() else 480, 60 if ctx.quick() else 150)
    ctx.random_validate("errlife", 32 if ctx.quick() else 240, 60 if ctx.quick() else 150)
    # the peer is another implementation (the reference): its farewell may carry records this one does not know
    ctx.attack_catalogue("ake")


def c03(ctx):
    inv = ["NoLeak"]
    cfgs = [dict(PolA=7, PolB=3), dict(PolA=3 | 8, PolB=3 | 16 | 4), dict(PolA=7 | 32, PolB=7)]
    if not ctx.quick():
        cfgs += [dict(PolA=5, PolB=1), dict(PolA=6 | 8, PolB=2 | 16), dict(PolA=3, PolB=3)]
    for i, pol in enumerate(cfgs):
        c = dict(pol, MaxSend=2, MaxFlight=3, MaxQuery=1, MaxEnd=1)
        ctx.model("c03-life%d" % i, c, inv, timeout=1800)
    ctx.export_validate("c03x", dict(PolA=7, PolB=3 | 4, MaxSend=1, MaxFlight=3, MaxQuery=1, MaxEnd=1), "life", drain=True,
                        maxsched=2500 if ctx.quick() else 20000)
    ctx.random_validate("life", 64 if ctx.quick() else 480, 60 if ctx.quick() else 150)
    # texts the user typed that begin like a query message (to the receiver they are one)
    ctx.random_validate("qlife", 64 if ctx.quick() else 480, 60 if ctx.quick() else 150)
    ctx.random_validate("qerrlife", 32 if ctx.quick() else 240, 60 if ctx.quick() else 150)
    # a failing randomness source must not end in messages enciphered under keys the specification does not derive
    ctx.random_validate("randfail", 48 if ctx.quick() else 480, 90)


_SESSION = [dict(a="Query", p="A"), dict(a="Deliver", p="B"), dict(a="Deliver", p="A"), dict(a="Deliver", p="B"),
            dict(a="Deliver", p="A"), dict(a="Deliver", p="B")]
STARTS = {
    "queryA": (dict(PolA=3, PolB=3), [dict(a="Query", p="A")]),
    "queryB-v2": (dict(PolA=1, PolB=3), [dict(a="Query", p="B")]),
    "both": (dict(PolA=3, PolB=3), [dict(a="Query", p="A"), dict(a="Query", p="B")]),
    "both-v2": (dict(PolA=1, PolB=1), [dict(a="Query", p="A"), dict(a="Query", p="B")]),
    "tag": (dict(PolA=3 | 8, PolB=3 | 16), [dict(a="Send", p="A")]),
    "req": (dict(PolA=3 | 4, PolB=3), [dict(a="Send", p="A")]),
    "reqboth": (dict(PolA=3 | 4, PolB=3 | 4), [dict(a="Send", p="A"), dict(a="Send", p="B")]),
    "err": (dict(PolA=3 | 32, PolB=3), [dict(a="Err", p="A")]),
    "refresh": (dict(PolA=3, PolB=3), [dict(a="Query", p="A"), dict(a="Deliver", p="B"), dict(a="Deliver", p="A"), dict(a="Deliver", p="B"),
                                       dict(a="Deliver", p="A"), dict(a="Deliver", p="B"), dict(a="Tick", p="A"), dict(a="Tick", p="B"),
                                       dict(a="Query", p="B")]),
    # a new start right after a session was ended (no minute has passed): by the side that ended it, by the
    # side that was told, and by a Send under required encryption
    # a version in common but not the same sets: the tag / query offers more than the receiver allows, or less
    "tag-v2only": (dict(PolA=3 | 8, PolB=1 | 16), [dict(a="Send", p="A")]),
    "tag-v3only": (dict(PolA=3 | 8, PolB=2 | 16), [dict(a="Send", p="A")]),
    "tag-fromv2": (dict(PolA=1 | 8, PolB=3 | 16), [dict(a="Send", p="A")]),
    "req-mixed": (dict(PolA=3 | 4, PolB=1), [dict(a="Send", p="A")]),
    "query-v3only": (dict(PolA=3, PolB=2), [dict(a="Query", p="A")]),
    "restart": (dict(PolA=3, PolB=3), _SESSION + [dict(a="End", p="A"), dict(a="Deliver", p="B"), dict(a="Query", p="A")]),
    "restartB": (dict(PolA=3, PolB=3), _SESSION + [dict(a="End", p="A"), dict(a="Deliver", p="B"), dict(a="Query", p="B")]),
    "restart-req": (dict(PolA=3 | 4, PolB=3), _SESSION + [dict(a="End", p="A"), dict(a="Deliver", p="B"), dict(a="Send", p="A")]),
    "restart-both": (dict(PolA=3, PolB=3), _SESSION + [dict(a="End", p="A"), dict(a="End", p="B"), dict(a="Deliver", p="B"), dict(a="Deliver", p="A"),
                                                      dict(a="Query", p="B")]),
}


def c07(ctx):
    for name, (pol, prelude) in STARTS.items():
        c = dict(pol, Prelude=prelude, MaxSend=0, MaxFlight=4, MaxQuery=0 if ctx.quick() else 1)
        if not ctx.quick() and name in ("tag", "req", "reqboth"):
            c["MaxSend"] = 1   # the user keeps typing while the exchange is in flight
        ctx.model("c07-" + name, c, invariants=["QuietImpliesDone"], properties=["Completes"], spec="FairSpec", timeout=1800)
        ctx.export_validate("c07x-" + name, c, "ake", drain=True)
    ctx.random_validate("akestart", 64 if ctx.quick() else 640, 30)
    # messages that travelled twice arrive after the session they belong to was ended; then a new start
    ctx.random_validate("dupend", 24 if ctx.quick() else 96, 1)
    # key-exchange messages arriving (again) inside or right after a session must be answered as the protocol says
    ctx.attack_catalogue("ake")


SMPCFG = dict(DATA33, MaxFlight=2, MaxSend=0)


def c06(ctx):
    q = ctx.quick()
    # the rejected-is-stutter property of the specification itself
    ctx.model("c06-model", dict(DATA33, MaxSend=2, MaxFlight=2), ["NoHonestReject"])
    for name, (pol, prelude) in [(k, STARTS[k]) for k in (("queryA", "both") if q else ("queryA", "queryB-v2", "both", "both-v2", "tag", "req", "err", "refresh"))]:
        c = dict(pol, Prelude=prelude, MaxSend=0, MaxFlight=4)
        ctx.export_tamper_validate("c06-ake-" + name, c, "ake", per_msg=16 if q else 0, allpos=not q, maxsched=8 if q else 40)
        ctx.export_tamper_validate("c06-aker-" + name, c, "none", per_msg=4 if q else 12, maxsched=6 if q else 30, replace=True)
    ctx.export_tamper_validate("c06-data", dict(DATA33, MaxSend=2, MaxFlight=2, MaxTick=1), "fifo-data", per_msg=10 if q else 0,
                               allpos=not q, maxsched=60 if q else 400)
    ctx.export_tamper_validate("c06-data-v2", dict(PolA=1, PolB=1, Setup="ake", MaxSend=2, MaxFlight=2), "fifo-data", per_msg=10 if q else 0,
                               allpos=not q, maxsched=30 if q else 200)
    ctx.export_tamper_validate("c06-life", dict(PolA=7, PolB=3, MaxSend=1, MaxFlight=3, MaxQuery=1, MaxEnd=1), "none",
                               per_msg=6 if q else 24, maxsched=60 if q else 400)
    # rejected copies (SMP messages ask to be ignored if unreadable) while an SMP run is in every one of its stages
    ctx.export_tamper_validate("c06-smp", dict(SMPCFG, MaxSMPStart=1, MaxSMPAnswer=1, MaxSMPAbort=0 if q else 1, Secrets=[5]), "none",
                               per_msg=8 if q else 24, maxsched=30 if q else 300)


def c02(ctx):
    q = ctx.quick()
    ctx.model("c02-bag", dict(DATA33, NetMode="bag", MaxSend=2, MaxFlight=2, MaxDup=2, MaxDrop=1), ["DeliveredAuthentic", "AtMostOnce"])
    ctx.model("c02-adv", dict(DATA33, MaxSend=2, MaxFlight=2, MaxAtk=2 if q else 3), ["NoForgedPlain", "DeliveredAuthentic", "AtMostOnce", "PrefixOrder"], timeout=2400)
    ctx.export_validate("c02x-adv", dict(DATA33, MaxSend=2, MaxFlight=2, MaxAtk=2), "none", drain=True, maxsched=1200 if q else 16000, timeout=2400)
    ctx.export_tamper_validate("c02-data", dict(DATA33, MaxSend=2, MaxFlight=2, MaxTick=1, MaxExtra=1), "fifo-data", per_msg=14 if q else 0,
                               allpos=not q, maxsched=80 if q else 600)
    ctx.export_tamper_validate("c02-data-v2", dict(PolA=1, PolB=1, Setup="ake", MaxSend=2, MaxFlight=2), "fifo-data", per_msg=14 if q else 0,
                               allpos=not q, maxsched=40 if q else 300)
    ctx.export_tamper_validate("c02-ws", dict(PolA=3 | 8, PolB=3 | 16, Prelude=[dict(a="Send", p="A")], PreludeDrain=True, MaxSend=1, MaxFlight=2),
                               "none", per_msg=6 if q else 20, maxsched=30 if q else 200)
    ctx.export_tamper_validate("c02-rep", dict(DATA33, MaxSend=2, MaxFlight=2), "none", per_msg=4 if q else 16, maxsched=20 if q else 150, replace=True)
    # what is re-sent after an error report is the text the user gave, byte for byte
    ctx.random_validate("errlife", 32 if q else 320, 60 if q else 150)
    # the randomness source fails in the middle of a session (a key rotation that does not happen): what is
    # accepted, and which MAC keys become public, afterwards
    ctx.random_validate("randfail", 48 if q else 480, 90)
    ctx.attack_catalogue("data")


def c01(ctx):
    q = ctx.quick()
    for name in (("queryA", "both") if q else ("queryA", "queryB-v2", "both", "both-v2", "tag", "req", "refresh")):
        pol, prelude = STARTS[name]
        c = dict(pol, Prelude=prelude, MaxSend=0, MaxFlight=4)
        ctx.model("c01-" + name, c, ["AuthInv", "AgreeInv"])
        ctx.export_tamper_validate("c01-ake-" + name, c, "ake", per_msg=24 if q else 0, allpos=not q, maxsched=8 if q else 40)
        ctx.export_tamper_validate("c01-aker-" + name, c, "none", per_msg=6 if q else 20, maxsched=6 if q else 30, replace=True)
    ctx.model("c01-bag", dict(PolA=3, PolB=3, Prelude=[dict(a="Query", p="A")], NetMode="bag", MaxFlight=4, MaxDup=2, MaxDrop=1, MaxQuery=1), ["AuthInv", "AgreeInv", "SessStable"])
    # the active attacker E at design level: tampered copies of anything in flight, and messages E builds
    # itself (own / degenerate DH values, signature blocks with its own key or claiming the peer's)
    for name in (("queryA",) if q else ("queryA", "both", "queryB-v2")):
        pol, prelude = STARTS[name]
        ctx.model("c01-adv-" + name, dict(pol, Prelude=prelude, MaxFlight=4, MaxAtk=2 if q else 3), ["AuthInv", "AgreeInv"], timeout=2400)
        # ... and the same adversarial behaviours replayed into the real code (the driver concretises E's choices)
        ctx.export_validate("c01x-adv-" + name, dict(pol, Prelude=prelude, MaxFlight=4, MaxAtk=2 if q else 3), "ake", drain=True,
                            maxsched=1200 if q else 12000, timeout=2400)
    qa_pol, qa_prel = STARTS["queryA"]
    ctx.model_expect_violation("c01-adv-reach", dict(qa_pol, Prelude=qa_prel, MaxFlight=4, MaxAtk=2), ["EveNeverPeer"], kf={})
    rp, rprel = STARTS["refresh"]
    ctx.model("c01-refresh", dict(rp, Prelude=rprel, MaxFlight=4, MaxQuery=1), ["AuthInv", "AgreeInv", "SessStable"])
    # non-vacuity: with the deviation the code has (known finding D20b) the model violates SessStable
    ctx.model_expect_violation("c01-refresh-earlyssid", dict(rp, Prelude=rprel, MaxFlight=4, MaxQuery=1), ["SessStable"], kf={"KF_EarlySSID": True})
    ctx.attack_catalogue("ake")


def c15(ctx):
    q = ctx.quick()
    v3 = dict(PolA=2, PolB=2)
    ctx.model("c15-model", dict(v3, Prelude=[dict(a="Query", p="A")], NetMode="bag", MaxFlight=4, MaxDup=2, MaxDrop=1), ["TagInv"])
    for name in (("queryA", "both") if q else ("queryA", "both", "tag", "req", "refresh")):
        pol, prelude = STARTS[name]
        c = dict(pol, Prelude=prelude, MaxSend=0, MaxFlight=4)
        ctx.export_tamper_validate("c15-ake-" + name, c, "ake", per_msg=30 if q else 0, allpos=not q, maxsched=8 if q else 40)
        ctx.export_tamper_validate("c15-aker-" + name, c, "none", per_msg=8 if q else 30, maxsched=6 if q else 30, replace=True)
    qa_pol, qa_prel = STARTS["queryA"]
    ctx.export_validate("c15x-adv", dict(qa_pol, Prelude=qa_prel, MaxFlight=4, MaxAtk=2 if q else 3), "ake", drain=True, maxsched=800 if q else 8000)
    ctx.export_tamper_validate("c15-data", dict(PolA=2, PolB=3, Setup="ake", MaxSend=2, MaxFlight=2), "fifo-data", per_msg=12 if q else 0,
                               allpos=not q, maxsched=40 if q else 300)
    ctx.random_validate("data", 32 if q else 200, 40)
    ctx.attack_catalogue("tags")
    # the binding over a conversation's life (End, the peer's disconnect, new sessions)
    ctx.export_validate("c15x-life", dict(PolA=3, PolB=3, MaxSend=1, MaxFlight=3, MaxQuery=1, MaxEnd=1), "none", drain=True,
                        maxsched=600 if q else 8000)
    # fragments carry instance tags of their own: Frag.tla says which instance the conversation is bound to
    frag_model(ctx, sender=False)
    c15_multi(ctx)


MULTI_INV = ["BystanderIgnored", "DeliveredFromBound", "PairedWithBound", "OtherNeverSecure", "NoBoundReject", "QuietImpliesPaired"]


def c15_multi(ctx):
    """One account logged in from two clients (OTRMulti.tla): three real conversations, A's messages reach both clients."""
    q = ctx.quick()
    QA, QB, QC = dict(a="Query", p="A"), dict(a="Query", p="B"), dict(a="Query", p="C")
    starts = [("qA", [QA], 1, True), ("qB", [QB], 0 if q else 1, True)] + \
             ([] if q else [("qBC", [QB, QC], 0, True), ("qAB", [QA, QB], 1, False), ("qBA", [QB, QA], 1, False), ("qABC", [QA, QB, QC], 0, False)])
    for nm, prel, ms, live in starts:
        c = dict(Multi=True, PolA=2, PolB=2, PolC=2, Prelude=prel, MaxSend=ms, MaxFlight=2)
        ctx.model("c15-multi-" + nm, c, MULTI_INV, ["BoundStable"])
        if live:
            ctx.model("c15-multi-live-" + nm, dict(c, MaxSend=0), [], ["Completes"], spec="FairSpec")
        ctx.export_validate("c15x-multi-" + nm, c, "multi", maxsched=120 if q else 1500)
    # the two clients allow different versions: A (2 and 3) ends up with the v3-only client under tags, or with the v2-only one
    c = dict(Multi=True, PolA=3, PolB=2, PolC=1, Prelude=[QA], MaxSend=1, MaxFlight=2)
    ctx.model("c15-multi-mixed", c, ["BystanderIgnored", "PairedWithBound", "OtherNeverSecure", "NoBoundReject", "QuietImpliesPaired"], ["BoundStable"])
    ctx.model("c15-multi-live-mixed", dict(c, MaxSend=0), [], ["Completes"], spec="FairSpec")
    ctx.export_validate("c15x-multi-mixed", c, "multi", maxsched=80 if q else 1500)
    # life of the binding: End and a new start by any of the three
    c = dict(Multi=True, PolA=2, PolB=2, PolC=2, Prelude=[QA], MaxSend=0, MaxFlight=2, MaxEnd=1, MaxQuery=0 if q else 1)
    ctx.model("c15-multi-life", c, ["BystanderIgnored", "DeliveredFromBound", "PairedWithBound", "OtherNeverSecure"], ["BoundStable"])
    ctx.export_validate("c15x-multi-life", c, "multi-life", maxsched=120 if q else 1500)
    # non-vacuity: version 2 has no instance tags, the same situation mixes the two clients up
    ctx.model_expect_violation("c15-multi-v2", dict(Multi=True, PolA=1, PolB=1, PolC=1, Prelude=[QA], MaxSend=1, MaxFlight=2), MULTI_INV, kf={})


def c16(ctx):
    q = ctx.quick()
    inv = ["VersionAllowed", "NoForbiddenOnWire", "HighestCommon", "NoLeak"]
    ctx.model("c16-allpol-offer", dict(AllPol=True, MaxOffer=1, MaxFlight=4), inv)
    ctx.model("c16-allpol-send", dict(AllPol=True, MaxSend=1, MaxFlight=4), inv, timeout=2400)
    if not q:
        ctx.model("c16-allpol-query", dict(AllPol=True, MaxQuery=1, MaxOffer=1, MaxFlight=4), inv, timeout=3000)
        # a stray message of either version from E before / during the negotiation
        ctx.model("c16-allpol-stray", dict(AllPol=True, MaxOffer=1, MaxAtk=1, MaxFlight=4), inv, timeout=3000)
    d = os.path.join(ctx.work, "nego")
    os.makedirs(d, exist_ok=True)
    import subprocess
    n = vlib.NCPU
    procs, traces = [], []
    for i in range(n):
        tf = os.path.join(d, "n-%02d.trace" % i)
        traces.append(tf)
        procs.append(subprocess.Popen([vlib.BIN, "negotiate", "-out", tf, "-seed", str(ctx.seed), "-shard", str(i), "-shards", str(n)]
                                      + (["-sample", "640"] if q else []), stdout=subprocess.PIPE, text=True))
    runs = 0
    for pr in procs:
        out = pr.communicate()[0]
        if pr.returncode != 0:
            raise Broken("negotiate driver failed")
        for line in out.splitlines():
            if line.startswith("RUN"):
                runs += int(line.split("schedules=")[1].split()[0])
            if line.startswith("PANIC"):
                ctx.add_finding(dict(kind="PANIC", reason="panic in a public API call", trace=traces[0], line=1, ev="?", p="?"))
    for tf in traces:
        ctx.sched_of_trace[tf] = None
    reports, lines = vlib.validate_traces(traces, ctx.kf)
    ctx.events += lines
    ctx.traces_validated += runs
    ctx.schedules += runs
    ctx.exhaustive = ctx.exhaustive and not q
    ctx.samples.append(dict(note="policy pair x offer form runs", runs=runs))
    ctx.classify(reports)
    # fragments name a version by their form: pieces in the other version's form must not be acted upon (Frag.tla)
    frag_model(ctx, sender=False)


def c11(ctx):
    q = ctx.quick()
    inv = ["SMPSuccessSound", "SMPFailureSound", "SMPNotStuck", "NoHonestReject"]
    ctx.model("c11-smp", dict(SMPCFG, MaxSMPStart=2, MaxSMPAnswer=2, MaxSMPAbort=0 if q else 1, Secrets=[1, 2]), inv, timeout=2400)
    ctx.model("c11-smp-v2-traffic", dict(PolA=1, PolB=1, Setup="ake", MaxFlight=2, MaxSend=1, MaxSMPStart=1, MaxSMPAnswer=1, Secrets=[1, 2]), inv)
    ctx.export_validate("c11x", dict(SMPCFG, MaxSMPStart=1, MaxSMPAnswer=1, MaxSend=0 if q else 1, Secrets=[5, 6]), "none", drain=True,
                        maxsched=300 if q else 4000)
    ctx.export_validate("c11x-v2", dict(PolA=1, PolB=1, Setup="ake", MaxFlight=2, MaxSMPStart=1, MaxSMPAnswer=1, Secrets=[1, 3]), "none", drain=True,
                        maxsched=100 if q else 2000)
    # SMP in a session that replaced another one (refresh while encrypted): the secret is bound to the new session
    rp, rprel = STARTS["refresh"]
    rc = dict(rp, Prelude=rprel, PreludeDrain=True, MaxFlight=2, MaxSend=0, MaxSMPStart=1, MaxSMPAnswer=1, Secrets=[5, 6])
    ctx.model("c11-refresh", rc, ["SMPSuccessSound", "SMPFailureSound", "SMPNotStuck"], timeout=2400)
    ctx.export_validate("c11x-refresh", rc, "none", drain=True, maxsched=200 if q else 4000)
    # secrets that differ only in white space at an end, with and without a question
    ctx.export_validate("c11x-ws", dict(SMPCFG, MaxSMPStart=1, MaxSMPAnswer=1, Secrets=[11, 12]), "none", drain=True, maxsched=150 if q else 2000)
    ctx.export_validate("c11x-ws2", dict(SMPCFG, MaxSMPStart=1, MaxSMPAnswer=1, Secrets=[9, 10]), "none", drain=True, maxsched=150 if q else 2000)
    ctx.random_validate("smp", 48 if q else 480, 4 if q else 10)
    # the same users trying again with the same inputs, handed over in the same buffers
    ctx.random_validate("smpretry", 24 if q else 96, 1)
    ctx.attack_catalogue("relay")


def c12(ctx):
    q = ctx.quick()
    inv = ["SMPSuccessSound", "SMPFailureSound", "SMPNotStuck"]
    ctx.model("c12-smp-abort", dict(SMPCFG, MaxSMPStart=2, MaxSMPAnswer=2, MaxSMPAbort=1, Secrets=[1]), inv, timeout=2400)
    ctx.model("c12-smp-bag", dict(SMPCFG, NetMode="bag", MaxDup=1 if q else 2, MaxDrop=1, MaxSMPStart=1, MaxSMPAnswer=1, MaxSMPAbort=1, Secrets=[1]),
              ["SMPSuccessSound", "SMPFailureSound"], timeout=2400)
    ctx.export_validate("c12x-bag", dict(SMPCFG, NetMode="bag", MaxDup=1, MaxDrop=1, MaxSMPStart=1, MaxSMPAnswer=1, MaxSMPAbort=1, Secrets=[4]), "none",
                        drain=True, maxsched=400 if q else 6000)
    ctx.random_validate("smpdev", 64 if q else 960, 3 if q else 6)
    ctx.random_validate("smpdeg", 32, 1)
    ctx.random_validate("smpcount", 128, 1)
    ctx.random_validate("smpbigq", 16, 1)
    ctx.random_validate("smp", 32 if q else 320, 4 if q else 10)


def c14(ctx):
    frag_model(ctx, sender=True)
    # fragmentation inside real sessions (sizes swept one by one, both versions)
    q = ctx.quick()
    ctx.random_validate("fragsweep", 16 if q else 64, 30 if q else 120)
    ctx.also_props = {"C04"}


def frag_model(ctx, sender=True):
    """Frag.tla: sender arithmetic (ASSUME over all L, S, both header lengths) and the receiver automaton
    (every arrival sequence up to MaxArrivals); every transition's schedule is replayed on a real
    Conversation (v2 and v3) and context/processed compared with the model's state; the real fragmenter
    is swept over sizes x lengths against the model's arithmetic (sender=True).  Under v3 the model also says
    which peer instance the conversation is bound to after the arrivals (C15)."""
    import subprocess, shutil, glob, re
    q = ctx.quick()
    d = os.path.join(ctx.work, "frag")
    os.makedirs(d, exist_ok=True)
    shutil.copy(os.path.join(vlib.SPEC, "Frag.tla"), d)
    open(os.path.join(d, "Frag.cfg"), "w").write("""SPECIFICATION Spec
CONSTANTS
  MaxL = %d
  Hs = {17, 35}
  MaxArrivals = %d
  Export = TRUE
VIEW view
INVARIANTS OnlyComplete ProcessedOnce BufferBounded
ACTION_CONSTRAINT Emit
CHECK_DEADLOCK FALSE
""" % (30 if q else 60, 5 if q else 6))
    rc, out = vlib.run_tlc(d, module="Frag", workers=vlib.NCPU, timeout=3000)
    gen, dist, err = vlib.tlc_stats(out)
    if rc != 0 or err:
        raise Broken("Frag.tla: rc=%s %s" % (rc, err))
    ctx.states += dist
    ctx.transitions += gen
    ctx.model_runs.append(dict(name="Frag.tla", states=dist, transitions=gen, invariants=["OnlyComplete", "ProcessedOnce", "BufferBounded", "ASSUME SenderOK"]))
    sched = os.path.join(d, "sched.ndjson")
    n = 0
    with open(sched, "w") as fo:
        for line in open(out, errors="replace"):
            m = re.match(r'<<"FRAGSCHED", "(.*)">>\s*$', line)
            if m:
                fo.write(m.group(1).replace('\\"', '"') + "\n")
                n += 1
    log("[frag] %d schedules exported" % n)
    parts = vlib.NCPU
    procs = []
    for i in range(parts):
        args = [vlib.BIN, "fragcheck", "-sizestep", ("11" if q else "1") if sender else "4001", "-part", str(i), "-parts", str(parts)]
        if i == 0:
            args += ["-sched", sched]
        procs.append(subprocess.Popen(args, stdout=subprocess.PIPE, stderr=subprocess.PIPE, text=True, errors="replace"))
    replayed = evals = viol = 0
    first = None
    for pr in procs:
        o, e = pr.communicate()
        if pr.returncode != 0:
            # a fatal runtime error (stack overflow, out of memory) cannot be recovered inside the process:
            # if it happened in the library under one of the model's schedules it is a finding
            if ("fatal error" in e or "panic:" in e) and "github.com/coyim/otr3." in e:
                first = first or ("FRAGVIOLATION the library crashes under a fragment schedule of the specification: " + " | ".join(e.splitlines()[:3]))[:400]
                viol += 1
                continue
            raise Broken("fragcheck failed: " + e[-500:])
        for line in o.splitlines():
            if line.startswith("FRAGVIOLATION") and first is None:
                first = line
            m = re.match(r"FRAGCHECK replayed=(\d+) sender_evaluations=(\d+) violations=(\d+)", line)
            if m:
                replayed += int(m.group(1)); evals += int(m.group(2)); viol += int(m.group(3))
    ctx.traces_validated += replayed
    ctx.events += evals + replayed
    ctx.schedules += replayed
    ctx.samples.append(dict(frag_schedule=open(sched).readline().strip()[:400]))
    ctx.extra_cov["fragment_sender_evaluations"] = evals
    if viol:
        os.makedirs(os.path.join(vlib.VERIF, "replays"), exist_ok=True)
        rp = os.path.join(vlib.VERIF, "replays", "%s-frag.json" % ctx.pid)
        json.dump(dict(property=ctx.pid, first=first), open(rp, "w"))
        ctx.findings.append(dict(kind="FRAG", reason=first or "fragmentation differs from Frag.tla", trace=None, line=0, ev="fragcheck", p="-", run=None, idx=None))


def c08(ctx):
    q = ctx.quick()
    inv = ["NoSecretsAtRest", "TextRetention"]
    scan = ("-scan",)
    for i, pol in enumerate(LIFE[:3] if q else LIFE):
        c = dict(pol, MaxSend=1 if q else 2, MaxFlight=3, MaxQuery=1, MaxEnd=1, MaxTick=0 if q else 1)
        ctx.model("c08-life%d" % i, c, inv, timeout=1800)
    ctx.model("c08-data", dict(DATA33, MaxSend=3, MaxFlight=3, MaxEnd=1), inv)
    ctx.export_validate("c08x-life", dict(PolA=7, PolB=3, MaxSend=1, MaxFlight=3, MaxQuery=1, MaxEnd=1), "life", drain=True,
                        maxsched=1200 if q else 12000, extra=scan)
    ctx.export_validate("c08x-data", dict(DATA33, MaxSend=2, MaxFlight=2, MaxEnd=1), "none", drain=True,
                        maxsched=800 if q else 8000, extra=scan)
    for name in (("both",) if q else ("both", "both-v2", "reqboth", "refresh")):
        pol, prelude = STARTS[name]
        ctx.export_validate("c08x-" + name, dict(pol, Prelude=prelude, MaxFlight=4, MaxEnd=1), "none", drain=True, extra=scan)
    ctx.random_validate("life", 32 if q else 320, 60 if q else 150, run_extra=scan)
    ctx.random_validate("errlife", 32 if q else 320, 60 if q else 150, run_extra=scan)
    ctx.random_validate("smp", 8 if q else 80, 3, run_extra=scan)
    # an SMP run in every stage / with every outcome, then End and the peer's disconnect: its secrets are session secrets
    ctx.random_validate("smpend", 64 if q else 256, 1, run_extra=scan)
    ctx.random_validate("bagsess", 16 if q else 160, 80, run_extra=scan)


def c10(ctx):
    """Everything on the wire is what the OTR specification prescribes.  The independent reference
    (harness/ref: standard library only) re-derives, from both sides' journalled secrets, the AKE
    keys, SSID, signature validity, session keys, MACs, counters, key ids, ciphertext, disclosed keys,
    padding and extra symmetric key of every message the real code emits; the result is the abstract
    message record that the TLA+ specification must reproduce exactly.  In the other direction the
    reference plays the peer (attack catalogue, honest E)."""
    q = ctx.quick()
    inv = ["NoHonestReject", "PrefixOrder", "DisclosedRetired"]
    ctx.model("c10-data", dict(DATA33, MaxSend=3, MaxFlight=3, MaxExtra=1), inv)
    ctx.export_validate("c10x-v3", dict(DATA33, MaxSend=2, MaxFlight=2, MaxTick=1, MaxExtra=1), "fifo-data", drain=True, maxsched=1200 if q else None)
    ctx.export_validate("c10x-v2", dict(PolA=1, PolB=1, Setup="ake", MaxSend=2, MaxFlight=2, MaxExtra=1), "fifo-data", drain=True, maxsched=600 if q else None)
    # offers (query, whitespace tag) between parties whose version sets differ: what is offered and what is read from an offer
    mixed = ("tag-v2only", "tag-v3only", "tag-fromv2", "query-v3only", "req-mixed")
    for name in ((("both", "tag") if q else ("queryA", "both", "both-v2", "tag", "req", "err", "refresh")) + mixed):
        pol, prelude = STARTS[name]
        ctx.export_validate("c10x-" + name, dict(pol, Prelude=prelude, MaxFlight=4, MaxSend=1), "none", drain=True, maxsched=300 if q else None)
    ctx.export_validate("c10x-smp", dict(SMPCFG, MaxSMPStart=1, MaxSMPAnswer=1, Secrets=[4]), "none", drain=True, maxsched=100 if q else None)
    # two starts (a start while the peer's request is waiting for our answer: abort TLV first, then the new request)
    ctx.export_validate("c10x-smp2", dict(SMPCFG, MaxSMPStart=2, MaxSMPAnswer=1, Secrets=[4]), "none", drain=True, maxsched=300 if q else 4000)
    ctx.random_validate("data", 32 if q else 320, 80)
    ctx.random_validate("fragsweep", 8 if q else 32, 30)
    ctx.random_validate("life", 32 if q else 320, 60)
    ctx.random_validate("shortdh", 16 if q else 64, 4 if q else 8)
    ctx.random_validate("lensweep", 16 if q else 64, 8 if q else 16)
    ctx.attack_catalogue("ake")


def go_check(ctx, args, marker, viol_marker, what):
    """Run a Go-side sub-command that prints '<marker> k=v ...' and '<viol_marker> ...' lines."""
    import re
    out = vlib.run_driver(args, timeout=3000)
    stats, first = {}, None
    for line in out.splitlines():
        if line.startswith(viol_marker) and first is None:
            first = line
        if line.startswith("PANIC") and first is None:
            first = line
        if line.startswith(marker):
            for kv in line.split()[1:]:
                k, v = kv.split("=")
                stats[k] = stats.get(k, 0) + int(v)
    if stats.get("violations", 0) or first:
        ctx.findings.append(dict(kind="GO", reason=(first or what)[:400], trace=None, line=0, ev=args[0], p="-", run=None, idx=None))
    return stats


def sexp_model(ctx):
    """Sexp.tla: the s-expression reader and the key-file importer/exporter as functions on character
    sequences; TLC checks progress and the export/import round trip and writes (input, result) vectors
    for every string over the reader's special characters and for token mutations of a key file; the
    real reader and ImportKeys must give exactly those results."""
    import shutil
    q = ctx.quick()
    d = os.path.join(ctx.work, "sexp")
    os.makedirs(d, exist_ok=True)
    shutil.copy(os.path.join(vlib.SPEC, "Sexp.tla"), d)
    vec = os.path.join(d, "vec.ndjson")
    open(os.path.join(d, "Sexp.cfg"), "w").write("""SPECIFICATION Spec
CONSTANTS
  Letters = {"a", "1", "g"%s}
  MaxLen = %d
  NameLen = %d
  MaxMut = %d
  Export = TRUE
  OutFile = "%s"
CHECK_DEADLOCK FALSE
""" % ("" if q else ', "0", "-"', 4 if q else 5, 1 if q else 2, 1 if q else 2, vec))
    rc, out = vlib.run_tlc(d, module="Sexp", workers=1, timeout=3000, heap="6g")
    gen, dist, err = vlib.tlc_stats(out)
    if rc != 0 or err or not os.path.exists(vec):
        raise Broken("Sexp.tla: rc=%s %s" % (rc, err))
    st = go_check(ctx, ["sexpcheck", "-vectors", vec], "SEXPCHECK", "SEXPVIOLATION",
                  "the s-expression reader or the key-file importer differs from Sexp.tla")
    if not st.get("vectors"):
        raise Broken("sexpcheck ran no vectors")
    ctx.model_runs.append(dict(name="Sexp.tla", states=dist, transitions=gen, vectors=st.get("vectors", 0),
                               theorems=["ReaderProgress", "RoundTripFile", "RoundTripEmpty", "ImportProgress"]))
    ctx.states += max(dist, 1)
    ctx.transitions += max(gen, 1)
    ctx.traces_validated += st.get("vectors", 0)
    ctx.events += st.get("vectors", 0)
    ctx.schedules += st.get("vectors", 0)
    ctx.extra_cov["sexp"] = st


def c17(ctx):
    """Codec.tla: the wire encoding on byte sequences with its round-trip theorems (checked by TLC as
    ASSUMEs over all small values); the (value, bytes) vectors TLC prints are run through the real
    serialisers and parsers; generated values beyond TLC's scope (field lengths up to 65536, leading
    zeros, all TLV types, SMP payloads with multi-byte questions, DSA keys and libotr key files)."""
    import shutil, re
    q = ctx.quick()
    d = os.path.join(ctx.work, "codec")
    os.makedirs(d, exist_ok=True)
    shutil.copy(os.path.join(vlib.SPEC, "Codec.tla"), d)
    open(os.path.join(d, "Codec.cfg"), "w").write("""SPECIFICATION Spec
CONSTANTS
  Alphabet = {0, 1, %s255}
  MaxLen = %d
  Export = TRUE
CHECK_DEADLOCK FALSE
""" % ("" if q else "2, 128, ", 3 if q else 4))
    rc, out = vlib.run_tlc(d, module="Codec", workers=1, timeout=3000, heap="4g")
    gen, dist, err = vlib.tlc_stats(out)
    if rc != 0 or err:
        raise Broken("Codec.tla: rc=%s %s" % (rc, err))
    vec = os.path.join(d, "vec.ndjson")
    n = 0
    with open(vec, "w") as fo:
        for line in open(out, errors="replace"):
            m = re.match(r'<<"CODECVEC", "(.*)">>\s*$', line)
            if m:
                fo.write(m.group(1).replace('\\"', '"') + "\n")
                n += 1
    ctx.states += max(dist, 1)
    ctx.transitions += max(gen, 1)
    ctx.model_runs.append(dict(name="Codec.tla", states=dist, transitions=gen, vectors=n,
                               theorems=["RoundTripData", "RoundTripMPI", "RoundTripTLV", "RoundTripDHCommit", "RoundTripRevealSig", "TruncationRefused"]))
    st = go_check(ctx, ["codeccheck", "-vectors", vec, "-rounds", "120" if q else "1500", "-seed", str(ctx.seed)], "CODECCHECK", "CODECVIOLATION",
                  "serialisation round trip differs from Codec.tla")
    ctx.traces_validated += st.get("vectors", 0)
    ctx.events += st.get("vectors", 0) + st.get("generated", 0) + st.get("keys", 0)
    ctx.schedules += st.get("vectors", 0) + st.get("generated", 0)
    ctx.samples.append(dict(vector=open(vec).readline().strip()[:300]))
    ctx.extra_cov["codec"] = st
    sexp_model(ctx)
    # inside real sessions: every message of SMP / extra-key / data runs is parsed by the independent
    # codec and must give the record the specification computes
    ctx.random_validate("smp", 8 if q else 80, 3)
    ctx.random_validate("data", 16 if q else 160, 60)
    # handshakes and traffic in which every DH public value has a leading zero byte (minimal form on the wire)
    ctx.random_validate("shortdh", 16 if q else 64, 4 if q else 8)


def c13(ctx):
    """Untrusted input and randomness failure.  The specification supplies the scenario space (every
    conversation state reached by the exported schedules x every input class: tampered fields, cuts,
    huge length/count prefixes, garbage, authenticated-but-malicious SMP payloads; the index k of the
    failing read) and the 'remains usable' oracle (after the failing call the rest of the run, a fresh
    handshake and a text each way, is validated against OTR.tla); panic, wall time and allocation are
    monitored per call by the driver and evaluated by the trace specification; the parser entry points
    are enumerated in child processes."""
    q = ctx.quick()
    ctx.level = "fault_enumeration"
    ctx.model("c13-model", dict(DATA33, NetMode="bag", MaxSend=2, MaxFlight=2, MaxDup=1, MaxDrop=1), ["NoSecretsAtRest"])
    for name in (("queryA",) if q else ("queryA", "both", "both-v2", "tag", "req")):
        pol, prelude = STARTS[name]
        c = dict(pol, Prelude=prelude, MaxSend=0, MaxFlight=4)
        ctx.export_tamper_validate("c13-ake-" + name, c, "none", per_msg=40 if q else 0, allpos=not q, maxsched=4 if q else 20)
    ctx.export_tamper_validate("c13-data", dict(DATA33, MaxSend=2, MaxFlight=2, MaxTick=1), "none", per_msg=16 if q else 0,
                               allpos=not q, maxsched=40 if q else 200)
    ctx.export_tamper_validate("c13-data-v2", dict(PolA=1, PolB=1, Setup="ake", MaxSend=1, MaxFlight=2), "none", per_msg=16 if q else 0,
                               allpos=not q, maxsched=20 if q else 100)
    ctx.export_tamper_validate("c13-life", dict(PolA=7, PolB=3, MaxSend=1, MaxFlight=3, MaxQuery=1, MaxEnd=1), "none",
                               per_msg=8 if q else 30, maxsched=40 if q else 300)
    ctx.random_validate("smpdev", 32 if q else 480, 3 if q else 6)
    ctx.random_validate("smpdeg", 32, 1)
    ctx.random_validate("smpcount", 128, 1)
    ctx.random_validate("smptlv", 64, 1)
    # fragments are untrusted input too: the fragment model's schedules (nested, foreign, other-format pieces)
    frag_model(ctx, sender=False)
    ctx.random_validate("randfail", 160 if q else 1600, 90)
    ctx.random_validate("nokeys", 96 if q else 960, 40)
    st = go_check(ctx, ["parsefuzz", "-seed", str(ctx.seed)] + ([] if q else ["-deep"]), "PARSEFUZZ", "FUZZVIOLATION",
                  "a parser entry point panicked, hung or allocated out of proportion")
    ctx.events += st.get("inputs", 0)
    ctx.extra_cov["parser_inputs"] = st.get("inputs", 0)
    sexp_model(ctx)


def c20(ctx):
    """Independent conversations.  OTR.tla has no variable shared between pairs, so N pairs are the
    product of N copies; SharedAppend.tla models the one way the implementation could couple them (an
    append to a package-level prefix slice with spare capacity) and TLC shows interference iff cap > len.
    On the real code: every package-level slice has len = cap and is unchanged afterwards; the driver,
    built with the race detector, runs 16 (32) pairs at the same time on their own goroutines
    (handshakes, traffic, errors, SMP, fragmentation, teardown) and each pair's trace must equal, event
    for event, the trace of the same pair run alone; the concurrent traces are validated by TLC."""
    import shutil, subprocess
    q = ctx.quick()
    d = os.path.join(ctx.work, "sa")
    os.makedirs(d, exist_ok=True)
    shutil.copy(os.path.join(vlib.SPEC, "SharedAppend.tla"), d)
    for (ln, cap, expect) in ((3, 3, False), (4, 4, False), (3, 5, True)):
        open(os.path.join(d, "SharedAppend.cfg"), "w").write("SPECIFICATION Spec\nCONSTANTS\n  PrefixLen = %d\n  Cap = %d\n  DataLen = 2\nINVARIANTS NoInterference PrefixIntact\nCHECK_DEADLOCK FALSE\n" % (ln, cap))
        rc, out = vlib.run_tlc(d, module="SharedAppend", workers=1, timeout=300, heap="1g")
        gen, dist, err = vlib.tlc_stats(out)
        ctx.model_runs.append(dict(name="SharedAppend len=%d cap=%d" % (ln, cap), states=dist, transitions=gen, error=err, expect_violation=expect))
        if bool(err) != expect:
            raise Broken("SharedAppend.tla len=%d cap=%d: expected violation=%s, TLC says %s" % (ln, cap, expect, err))
        ctx.states += dist or 0
        ctx.transitions += gen or 0
    # race-detector build of the driver
    race = vlib.BIN + "-race"
    p = subprocess.run(["go", "build", "-race", "-tags", "verif", "-o", race, "./cmd/otrdrive"], cwd=vlib.HARNESS, env=vlib.GOENV, capture_output=True, text=True)
    if p.returncode != 0:
        raise Broken("race build failed: " + p.stderr[-1500:])
    sched = os.path.join(ctx.work, "conc.sched")
    with open(sched, "w") as fo:
        for fam, n, depth in (("life", 4, 40), ("errlife", 3, 40), ("smp", 10, 3), ("data", 3, 40), ("fragsweep", 2, 6)):
            n2 = n if q else n * 2
            tmp = os.path.join(ctx.work, "c-%s.sched" % fam)
            subprocess.run([vlib.BIN, "gen", "-family", fam, "-n", str(n2), "-depth", str(depth), "-seed", str(ctx.seed * 31 + len(fam)), "-out", tmp], check=True)
            fo.write(open(tmp).read())
    tf = os.path.join(ctx.work, "conc.trace")
    env = dict(os.environ, GORACE="halt_on_error=1 exitcode=66")
    pr = subprocess.run([race, "concurrent", "-sched", sched, "-out", tf, "-seed", str(ctx.seed), "-rounds", "2" if q else "6"],
                        capture_output=True, text=True, env=env, timeout=3000)
    first = None
    stats = {}
    for line in pr.stdout.splitlines():
        if line.startswith("CONCVIOLATION") and first is None:
            first = line
        if line.startswith("CONCURRENT"):
            for kv in line.split()[1:]:
                k, v = kv.split("=")
                stats[k] = int(v)
    if pr.returncode == 66 or "DATA RACE" in pr.stderr:
        first = "the race detector reports a data race: " + " ".join(pr.stderr.split("\n")[1:6])[:300]
    elif pr.returncode != 0 and first is None:
        raise Broken("concurrent driver failed rc=%s %s" % (pr.returncode, pr.stderr[-800:]))
    if first:
        ctx.findings.append(dict(kind="GO", reason=first[:500], trace=None, line=0, ev="concurrent", p="-", run=None, idx=None))
    ctx.extra_cov["concurrent"] = stats
    ctx.events += stats.get("events", 0)
    ctx.sched_of_trace[tf] = None
    if os.path.exists(tf) and os.path.getsize(tf) > 0:
        reports, lines = vlib.validate_traces([tf], ctx.kf)
        ctx.traces_validated += stats.get("pairs", 0) + stats.get("lockstep", 0)
        ctx.schedules += stats.get("pairs", 0) + stats.get("lockstep", 0)
        ctx.samples.append(dict(schedule=json.loads(open(sched).readline())))
        ctx.classify(reports)
    ctx.exhaustive = False


TABLE = {
    "C20": c20,
    "C13": c13,
    "C17": c17,
    "C10": c10,
    "C08": c08,
    "C14": c14,
    "C11": c11,
    "C12": c12,
    "C15": c15,
    "C16": c16,
    "C01": c01,
    "C02": c02,
    "C06": c06,
    "C03": c03,
    "C04": c04,
    "C05": c05,
    "C07": c07,
    "C09": c09,
    "C18": c18,
    "C19": c19,
}


def replay(ctx, path):
    body = json.load(open(path))
    sched = body.get("schedule")
    if not sched:
        print("replay file has no schedule")
        return 2
    ctx.run_validate([sched], tag="replay", drain=False)
    same = [f for f in ctx.findings if f["reason"] == body["reason"]] + \
           [f for fs in ctx.known_hits.values() for f in fs if f["reason"] == body["reason"]]
    if same:
        print("VIOLATION property=%s replay=%s" % (ctx.pid, path))
        print("  reproduced: %s" % body["reason"])
        return 1
    print("NOT-REPRODUCED property=%s replay=%s" % (ctx.pid, path))
    return 0
