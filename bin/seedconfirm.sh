#!/bin/bash
# seedconfirm.sh <seed dir with patch.diff and demo_test.go>: confirm against the current /repo HEAD, in a scratch worktree:
#  (1) suite passes with the patch, (2) demo passes without the patch, (3) demo fails with the patch
D=$1
export GOFLAGS=-mod=mod GOPROXY=off GOSUMDB=off GOTOOLCHAIN=local
W=$(mktemp -d /tmp/seedconf-XXXX)
git -C /repo worktree add -q --detach $W/wt HEAD || exit 3
cd $W/wt
cp $D/demo_test.go ./zz_seeded_demo_test.go
go test -vet=off -count=1 -run 'Test_Seeded' . > $W/demo0.txt 2>&1; r0=$?
rm zz_seeded_demo_test.go
if ! git apply $D/patch.diff 2>$W/err; then echo "CONFIRM $D PATCH-CONFLICT $(head -1 $W/err)"; cd /; git -C /repo worktree remove --force $W/wt; rm -rf $W; exit 3; fi
go test -vet=off -count=1 ./... > $W/suite.txt 2>&1; rs=$?
cp $D/demo_test.go ./zz_seeded_demo_test.go
go test -vet=off -count=1 -run 'Test_Seeded' . > $W/demo1.txt 2>&1; r1=$?
echo "CONFIRM $D demo_without_patch=$r0 suite_with_patch=$rs demo_with_patch=$r1 $( [ $r0 = 0 ] && [ $rs = 0 ] && [ $r1 != 0 ] && echo VALID || echo INVALID)"
cd /; git -C /repo worktree remove --force $W/wt; rm -rf $W
