#!/usr/bin/env python3
"""seedrerun.py [--noconfirm] <ids...>: re-confirm filed seeded changes (/verif/seeded/<id>) against the current /repo HEAD and
re-run the quick check of their property (plus extra checks given as id:Cxx,Cyy) in a scratch worktree; meta.json is updated."""
import json, os, re, subprocess, sys
V = "/verif"
args = [a for a in sys.argv[1:] if not a.startswith("--")]
noconf = "--noconfirm" in sys.argv
for a in args:
    sid, _, extra = a.partition(":")
    dst = os.path.join(V, "seeded", sid)
    mf = os.path.join(dst, "meta.json")
    meta = json.load(open(mf))
    if not noconf:
        c = subprocess.run([V + "/bin/seedconfirm.sh", dst], capture_output=True, text=True, errors="replace").stdout
        m = re.search(r"CONFIRM \S+ (.*)", c)
        conf = m.group(1).strip() if m else c.strip()[-200:]
        meta["confirmation"] = conf
        meta["status"] = "valid" if conf.endswith("VALID") and "INVALID" not in conf else ("conflict" if "PATCH-CONFLICT" in conf else "invalid")
    det = meta.get("runs", {})
    if meta["status"] == "valid":
        for chk in [meta["property"]] + [x for x in extra.split(",") if x]:
            r = subprocess.run([V + "/bin/seedrun.sh", os.path.join(dst, "patch.diff"), os.environ.get("TIER", "quick"), chk], capture_output=True, text=True, errors="replace").stdout
            mm = re.search(r"rc=(\d+) :: (.*)", r)
            det[chk] = dict(rc=int(mm.group(1)) if mm else -1, first=(mm.group(2)[:300] if mm else r[-300:]))
    meta["runs"] = det
    meta["detected_by"] = [k for k, v in det.items() if v["rc"] == 1]
    meta["ran"] = ["bin/seedrun.sh seeded/%s/patch.diff quick %s" % (sid, k) for k in det]
    json.dump(meta, open(mf, "w"), indent=1)
    print(sid, meta["status"], "detected by", meta["detected_by"], {k: v["rc"] for k, v in det.items()}, flush=True)
