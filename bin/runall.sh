#!/bin/bash
# runall.sh [tier]: every property's check against /repo, evidence rewritten; summary on stdout
cd /verif
T=${1:-quick}
for p in C01 C02 C03 C04 C05 C06 C07 C08 C09 C10 C11 C12 C13 C14 C15 C16 C17 C18 C19 C20; do
  /usr/bin/time -f "%es" bin/check $p $T 2>&1 | grep -E "^(OK|VIOLATION|BROKEN|KNOWN|[0-9.]+s|  )" | cut -c1-240
done
