#!/usr/bin/env python3
"""Shared machinery for /verif/bin/check: building the harness, running TLC
(exhaustive model checking, schedule export, trace validation), driving the
real code, classifying reports against known findings, writing evidence."""
import json, os, re, shutil, subprocess, sys, tempfile, time, hashlib, glob
from concurrent.futures import ThreadPoolExecutor

VERIF = os.path.dirname(os.path.dirname(os.path.abspath(__file__)))
REPO = os.environ.get("VERIF_REPO", "/repo")
SPEC = os.path.join(VERIF, "spec")
HARNESS = os.path.join(VERIF, "harness")
BIN = os.path.join(HARNESS, "bin", "otrdrive")
JAVA_CP = "/opt/veriftools/tla/tla2tools.jar:/opt/veriftools/tla/CommunityModules-deps.jar"
NCPU = os.cpu_count() or 4

GOENV = dict(os.environ, GOFLAGS="-mod=mod", GOPROXY="off", GOSUMDB="off", GOTOOLCHAIN="local")

KF_ALL = ["KF_CollisionWinner", "KF_CounterFirst", "KF_TagAdoptEarly", "KF_ResendHistory",
          "KF_MacPerMessage", "KF_CounterGrowth", "KF_StraySigFlush", "KF_ReAKEWipesMacs", "KF_FragKeep",
          "KF_BadCommitWipes", "KF_EarlyPeerKey", "KF_RejectCommits", "KF_AKETimerAlways", "KF_SMPCorruptSilent", "KF_EarlySSID", "KF_RequeryNewCommit", "KF_TagRestarts"]


class Broken(Exception):
    """The check itself could not run (exit 2): not evidence about the code."""


def log(*a):
    print(*a, file=sys.stderr, flush=True)


def scratch():
    d = tempfile.mkdtemp(prefix="verif-", dir=os.environ.get("VERIF_SCRATCH", "/tmp"))
    return d


def build_harness():
    """Build the driver against the repository's current working tree with the hook tag.
    With VERIF_REPO set (scratch worktrees used to try seeded changes) a private copy of the
    harness is built so that parallel runs do not disturb each other."""
    global BIN, HARNESS
    if os.environ.get("VERIF_REPO"):
        priv = tempfile.mkdtemp(prefix="verif-harness-", dir=os.environ.get("VERIF_SCRATCH", "/tmp"))
        shutil.copytree(HARNESS, os.path.join(priv, "harness"), ignore=shutil.ignore_patterns("bin"))
        HARNESS = os.path.join(priv, "harness")
        BIN = os.path.join(HARNESS, "bin", "otrdrive")
        PRIVATE.append(priv)
    os.makedirs(os.path.dirname(BIN), exist_ok=True)
    # go.sum must match the repository's
    try:
        shutil.copy(os.path.join(REPO, "go.sum"), os.path.join(HARNESS, "go.sum"))
    except Exception:
        pass
    modfile = os.path.join(HARNESS, "go.mod")
    txt = open(modfile).read()
    want = "replace github.com/coyim/otr3 => %s" % REPO
    if want not in txt:
        txt = re.sub(r"replace github.com/coyim/otr3 => \S+", want, txt)
        open(modfile, "w").write(txt)
    t0 = time.time()
    # VERIF_COVER=<dir>: coverage-instrumented driver; every driver process writes its counters of the library's
    # packages there (GOCOVERDIR) -- used to see which code of coyim/otr3 the checks never reach
    cover = []
    if os.environ.get("VERIF_COVER"):
        os.makedirs(os.environ["VERIF_COVER"], exist_ok=True)
        os.environ["GOCOVERDIR"] = os.environ["VERIF_COVER"]
        cover = ["-cover", "-coverpkg=github.com/coyim/otr3,github.com/coyim/otr3/sexp"]
    p = subprocess.run(["go", "build", "-tags", "verif"] + cover + ["-o", BIN, "./cmd/otrdrive"], cwd=HARNESS, env=GOENV,
                       capture_output=True, text=True)
    if p.returncode != 0:
        raise Broken("harness does not build against %s:\n%s" % (REPO, p.stdout + p.stderr))
    log("[build] harness built in %.1fs" % (time.time() - t0))


PRIVATE = []


def cleanup_private():
    for d in PRIVATE:
        shutil.rmtree(d, ignore_errors=True)


def open_findings():
    f = json.load(open(os.path.join(VERIF, "known_findings.json")))
    return f


def kf_flags():
    """Deviation constants that are TRUE: those of the findings still open."""
    kf = {k: False for k in KF_ALL}
    for e in open_findings().get("open", []):
        for k in e.get("kf", []):
            kf[k] = True
    return kf


def tla_val(v):
    if isinstance(v, bool):
        return "TRUE" if v else "FALSE"
    if isinstance(v, int):
        return str(v)
    if isinstance(v, str):
        return '"%s"' % v
    raise ValueError(v)


def pol_rec(bits):
    names = ["v2", "v3", "req", "wstag", "wsstart", "errstart"]
    return "[" + ", ".join("%s |-> %s" % (n, "TRUE" if bits >> i & 1 else "FALSE") for i, n in enumerate(names)) + "]"


def write_mc(d, consts, kf, invariants=(), properties=(), spec="Spec", export=False, view=True, constraint=None):
    """consts: PolA, PolB (bits), VerA, VerB, and the scalar constants of OTRModel."""
    if consts.get("Multi"):
        return write_mc_multi(d, consts, kf, invariants, properties, spec, export, view)
    for f in glob.glob(os.path.join(SPEC, "*.tla")):
        shutil.copy(f, d)
    prelude = list(consts.get("Prelude", []))
    drain = bool(consts.get("PreludeDrain", False))
    if consts.get("Setup") == "ake":
        prelude = [dict(a="Query", p="A")] + prelude
        drain = True
    c = dict(MaxSend=0, MaxFlight=2, MaxTick=0, MaxEnd=0, MaxQuery=0, MaxExtra=0,
             NetMode="fifo", MaxDup=0, MaxDrop=0, MaxAtk=0, AllPol=False, MaxOffer=0, MaxSMPStart=0, MaxSMPAnswer=0, MaxSMPAbort=0)
    c.update({k: v for k, v in consts.items() if k not in ("PolA", "PolB", "VerA", "VerB", "Setup", "Prelude", "PreludeDrain", "Secrets")})
    c["PreludeDrain"] = drain
    mc = ["---- MODULE MC ----", "EXTENDS OTRModel",
          'MCPol == [p \\in {"A","B"} |-> IF p = "A" THEN %s ELSE %s]' % (pol_rec(consts.get("PolA", 3)), pol_rec(consts.get("PolB", 3))),
          'MCVer == [p \\in {"A","B"} |-> IF p = "A" THEN %d ELSE %d]' % (consts.get("VerA", 0), consts.get("VerB", 0))]
    mc.append("MCSecrets == {" + ", ".join(str(x) for x in consts.get("Secrets", [1, 2])) + "}")
    mc.append("MCPrelude == <<" + ", ".join('[a |-> "%s", p |-> "%s"]' % (x["a"], x["p"]) for x in prelude) + ">>")
    if constraint:
        mc.append("MCConstraint == " + constraint)
    mc.append("====")
    open(os.path.join(d, "MC.tla"), "w").write("\n".join(mc) + "\n")
    cfg = ["SPECIFICATION " + spec, "CONSTANTS"]
    for k in KF_ALL:
        cfg.append("  %s = %s" % (k, tla_val(bool(kf.get(k, False)))))
    cfg += ["  Pol <- MCPol", "  Ver0 <- MCVer", "  Prelude <- MCPrelude", "  Secrets <- MCSecrets"]
    for k, v in c.items():
        cfg.append("  %s = %s" % (k, tla_val(v)))
    cfg.append("  Export = %s" % tla_val(export))
    if view:
        cfg.append("VIEW view")
    if invariants:
        cfg.append("INVARIANTS " + " ".join(invariants))
    if properties:
        cfg.append("PROPERTIES " + " ".join(properties))
    if export:
        cfg.append("ACTION_CONSTRAINT Emit")
    if constraint:
        cfg.append("CONSTRAINT MCConstraint")
    cfg.append("CHECK_DEADLOCK FALSE")
    open(os.path.join(d, "MC.cfg"), "w").write("\n".join(cfg) + "\n")


def write_mc_multi(d, consts, kf, invariants=(), properties=(), spec="Spec", export=False, view=True):
    """MC for OTRMulti.tla (one account logged in twice): consts PolA, PolB, PolC (bits), Prelude, MaxSend, ..."""
    for f in glob.glob(os.path.join(SPEC, "*.tla")):
        shutil.copy(f, d)
    c = dict(MaxSend=0, MaxFlight=2, MaxQuery=0, MaxEnd=0, MaxTick=0)
    c.update({k: v for k, v in consts.items() if k in c})
    mc = ["---- MODULE MC ----", "EXTENDS OTRMulti",
          'MCPol == [p \\in {"A","B","C"} |-> IF p = "A" THEN %s ELSE IF p = "B" THEN %s ELSE %s]'
          % (pol_rec(consts.get("PolA", 2)), pol_rec(consts.get("PolB", 2)), pol_rec(consts.get("PolC", 2))),
          "MCPrelude == <<" + ", ".join('[a |-> "%s", p |-> "%s"]' % (x["a"], x["p"]) for x in consts.get("Prelude", [])) + ">>", "===="]
    open(os.path.join(d, "MC.tla"), "w").write("\n".join(mc) + "\n")
    cfg = ["SPECIFICATION " + spec, "CONSTANTS"]
    for k in KF_ALL:
        cfg.append("  %s = %s" % (k, tla_val(bool(kf.get(k, False)))))
    cfg += ["  Pol <- MCPol", "  Prelude <- MCPrelude"]
    for k, v in c.items():
        cfg.append("  %s = %s" % (k, tla_val(v)))
    cfg.append("  Export = %s" % tla_val(export))
    if view:
        cfg.append("VIEW view")
    if invariants:
        cfg.append("INVARIANTS " + " ".join(invariants))
    if properties:
        cfg.append("PROPERTIES " + " ".join(properties))
    if export:
        cfg.append("ACTION_CONSTRAINT Emit")
    cfg.append("CHECK_DEADLOCK FALSE")
    open(os.path.join(d, "MC.cfg"), "w").write("\n".join(cfg) + "\n")


def run_tlc(d, module="MC", workers=8, timeout=900, heap="6g", extra=(), env=None, outfile=None):
    """Run TLC in directory d; return (returncode, output path)."""
    out = outfile or os.path.join(d, module + ".out")
    gc = ["-XX:+UseParallelGC"] + (["-XX:ParallelGCThreads=2", "-XX:CICompilerCount=2", "-XX:TieredStopAtLevel=1"] if workers == 1 else [])
    cmd = ["java"] + gc + ["-Xmx" + heap, "-Xss64m", "-cp", JAVA_CP, "tlc2.TLC",
           "-workers", str(workers), "-metadir", os.path.join(d, "meta-" + module), "-noGenerateSpecTE"] + list(extra) + [module + ".tla"]
    e = dict(os.environ)
    if env:
        e.update(env)
    with open(out, "w") as fo:
        try:
            p = subprocess.run(cmd, cwd=d, stdout=fo, stderr=subprocess.STDOUT, timeout=timeout, env=e)
            rc = p.returncode
        except subprocess.TimeoutExpired:
            rc = -9
    return rc, out


STATS_RE = re.compile(r"^(\d+) states generated, (\d+) distinct states found, (\d+) states left on queue")


def tlc_stats(out):
    gen = dist = None
    err = None
    for line in open(out, errors="replace"):
        m = STATS_RE.match(line)
        if m:
            gen, dist = int(m.group(1)), int(m.group(2))
        if line.startswith("Error:") and err is None:
            err = line.strip()
    return gen, dist, err


def model_check(name, consts, invariants=(), properties=(), spec="Spec", kf=None, workers=8, timeout=900, constraint=None, keep=None):
    """Exhaustive TLC run of OTRModel. Returns dict(states, transitions, error)."""
    d = scratch()
    try:
        write_mc(d, consts, kf or {}, invariants, properties, spec=spec, export=False,
                 view=not properties, constraint=constraint)
        t0 = time.time()
        rc, out = run_tlc(d, workers=workers, timeout=timeout)
        gen, dist, err = tlc_stats(out)
        partial = False
        if rc == -9 and not err:
            # stopped by the time budget: what TLC had explored (breadth first) by its last progress report
            for line in open(out, errors="replace"):
                m = re.match(r"Progress\((\d+)\) at .*?: ([\d,]+) states generated.*? ([\d,]+) distinct states found", line)
                if m:
                    gen, dist, partial = int(m.group(2).replace(",", "")), int(m.group(3).replace(",", "")), True
        log("[tlc] %s: rc=%s generated=%s distinct=%s %.1fs %s%s" % (name, rc, gen, dist, time.time() - t0, err or "", " (time budget reached)" if partial else ""))
        res = dict(name=name, rc=rc, transitions=gen or 0, states=dist or 0, error=err, consts=consts, wall=time.time() - t0, partial=partial)
        if err or rc != 0:
            res["tail"] = "".join(open(out, errors="replace").readlines()[-60:])
            if keep:
                shutil.copy(out, keep)
        return res
    finally:
        shutil.rmtree(d, ignore_errors=True)


def export_schedules(name, consts, kf, workers=8, timeout=900, maxsched=None):
    """Exhaustive run with schedule export. Returns (stats, list of schedules (lists of steps))."""
    d = scratch()
    try:
        write_mc(d, consts, kf, (), (), export=True)
        t0 = time.time()
        rc, out = run_tlc(d, workers=workers, timeout=timeout)
        gen, dist, err = tlc_stats(out)
        if rc != 0 or err:
            raise Broken("schedule export %s failed: rc=%s %s\n%s" % (name, rc, err, "".join(open(out, errors="replace").readlines()[-40:])))
        paths = set()
        for line in open(out, errors="replace"):
            if line.startswith('<<"SCHED"'):
                m = re.match(r'<<"SCHED", "(.*)">>\s*$', line)
                if m:
                    paths.add(m.group(1).replace('\\"', '"').replace("\\\\", "\\"))
        scheds = [json.loads(p) for p in paths]
        scheds = [tuple(json.dumps(s, sort_keys=True) for s in p) for p in scheds]
        # drop schedules that are proper prefixes of another one
        allp = set(scheds)
        prefixes = set()
        for p in allp:
            for k in range(1, len(p)):
                prefixes.add(p[:k])
        keep = sorted(p for p in allp if p not in prefixes)
        res = [[json.loads(s) for s in p] for p in keep]
        log("[tlc] export %s: transitions=%s distinct=%s paths=%d maximal=%d %.1fs" % (name, gen, dist, len(allp), len(res), time.time() - t0))
        return dict(name=name, transitions=gen or 0, states=dist or 0, paths=len(allp)), res
    finally:
        shutil.rmtree(d, ignore_errors=True)


def sched_record(steps, consts, sid, fam):
    if consts.get("Multi"):
        return dict(id=sid, fam=fam, multi=True, pol={"A": consts.get("PolA", 2), "B": consts.get("PolB", 2), "C": consts.get("PolC", 2)},
                    ver={"A": 0, "B": 0, "C": 0}, setup="none", steps=steps)
    return dict(id=sid, fam=fam, pol={"A": consts.get("PolA", 3), "B": consts.get("PolB", 3)},
                ver={"A": consts.get("VerA", 0), "B": consts.get("VerB", 0)}, setup="none", steps=steps)


def drive(sched_records, seed, workdir, tag="s", extra_args=()):
    """Execute schedules on the real code in parallel shards; return list of trace files and driver output."""
    n = max(1, min(NCPU, len(sched_records) // 20 + 1))
    shards = [[] for _ in range(n)]
    for i, s in enumerate(sched_records):
        if not s.get("seed"):
            s["seed"] = seed * 100003 + i + 1
        shards[i % n].append(s)
    jobs = []
    for i, sh in enumerate(shards):
        sf = os.path.join(workdir, "%s-%02d.sched" % (tag, i))
        tf = os.path.join(workdir, "%s-%02d.trace" % (tag, i))
        with open(sf, "w") as f:
            for s in sh:
                f.write(json.dumps(s) + "\n")
        jobs.append((sf, tf, seed + i))

    def one(j):
        sf, tf, sd = j
        p = subprocess.run([BIN, "run", "-sched", sf, "-out", tf, "-seed", str(sd)] + list(extra_args), capture_output=True, text=True, timeout=3600)
        return p.returncode, p.stdout, p.stderr, tf

    t0 = time.time()
    with ThreadPoolExecutor(max_workers=NCPU) as ex:
        res = list(ex.map(one, jobs))
    traces, outs = [], []
    for rc, so, se, tf in res:
        if rc != 0:
            # a fatal runtime error (stack overflow, out of memory: not recoverable inside the process) that
            # happened in the library while the driver executed a schedule is a finding, not a broken harness
            if "fatal error" in se and "github.com/coyim/otr3." in se:
                CRASHES.append(("the library brought the driver down while executing a schedule of %s: " % os.path.basename(tf)
                                + " | ".join(se.splitlines()[:3]))[:400])
                continue
            raise Broken("driver failed rc=%s: %s %s" % (rc, so[-2000:], se[-2000:]))
        traces.append(tf)
        outs.append(so)
    log("[drive] %d schedules in %d shards %.1fs" % (len(sched_records), n, time.time() - t0))
    return traces, outs


# fatal crashes of the library observed by drive(); the caller turns them into findings
CRASHES = []


def run_driver(args, timeout=3600):
    p = subprocess.run([BIN] + args, capture_output=True, text=True, timeout=timeout)
    if p.returncode not in (0,):
        raise Broken("driver %s failed rc=%s: %s %s" % (args[:2], p.returncode, p.stdout[-2000:], p.stderr[-2000:]))
    return p.stdout


def validate_traces(traces, kf, cfgextra=(), noresync=False):
    """TLC trace validation of every trace file (parallel). Returns (reports, nlines, ntraces_ok)."""
    d = scratch()
    try:
        for f in glob.glob(os.path.join(SPEC, "*.tla")):
            shutil.copy(f, d)
        cfg = ["SPECIFICATION TraceSpec", "CONSTANTS"]
        for k in KF_ALL:
            cfg.append("  %s = %s" % (k, tla_val(bool(kf.get(k, False)))))
        cfg += ["INVARIANT TraceDone", "POSTCONDITION TraceAccepted", "CHECK_DEADLOCK FALSE"]
        open(os.path.join(d, "OTRTrace.cfg"), "w").write("\n".join(cfg) + "\n")

        def one(tf):
            sub = tempfile.mkdtemp(dir=d)
            for f in glob.glob(os.path.join(d, "*.tla")) + [os.path.join(d, "OTRTrace.cfg")]:
                shutil.copy(f, sub)
            rc, out = run_tlc(sub, module="OTRTrace", workers=1, timeout=1800, heap="3g", env=dict({"TRACE": tf}, **({"NORESYNC": "1"} if noresync else {})))
            reports, end, err = [], None, None
            for line in open(out, errors="replace"):
                if line.startswith('<<"MISMATCH"') or line.startswith('<<"PROP"'):
                    m = re.match(r'<<"(MISMATCH|PROP)", "(.*)">>\s*$', line)
                    if m:
                        r = json.loads(m.group(2).replace('\\"', '"').replace("\\\\", "\\"))
                        r["kind"] = m.group(1)
                        r["trace"] = tf
                        reports.append(r)
                elif line.startswith('<<"TRACE-END"'):
                    m = re.match(r'<<"TRACE-END", (\d+), (\d+)>>', line)
                    end = (int(m.group(1)), int(m.group(2)))
                elif line.startswith("Error:") and err is None:
                    err = line.strip()
            if end is None:
                tail = "".join(open(out, errors="replace").readlines()[-50:])
                raise Broken("trace validation of %s did not reach the end of the trace (rc=%s, %s)\n%s" % (tf, rc, err, tail))
            return reports, end

        t0 = time.time()
        with ThreadPoolExecutor(max_workers=NCPU) as ex:
            res = list(ex.map(one, traces))
        reports, lines = [], 0
        for r, end in res:
            reports += r
            lines += end[0]
        log("[validate] %d trace files, %d events, %d reports, %.1fs" % (len(traces), lines, len(reports), time.time() - t0))
        return reports, lines
    finally:
        shutil.rmtree(d, ignore_errors=True)


def load_trace_runs(tf):
    """Split a trace file into runs (lists of events), each starting with Init."""
    runs, cur = [], None
    for line in open(tf):
        e = json.loads(line)
        if e["ev"] == "Init":
            cur = [e]
            runs.append(cur)
        else:
            cur.append(e)
    return runs


def run_of_line(tf, line):
    """Return (run events, index of the line within the run) for 1-based trace line."""
    runs = load_trace_runs(tf)
    n = 0
    for r in runs:
        if line <= n + len(r):
            return r, line - n - 1
        n += len(r)
    return None, None


def write_evidence(pid, tier, seed, level, coverage, wall, violations, assumptions):
    evdir = os.environ.get("VERIF_EVIDENCE_DIR", os.path.join(VERIF, "evidence"))
    os.makedirs(evdir, exist_ok=True)
    ev = dict(property_id=pid, tier=tier, seed=seed, level=level, coverage=coverage, wall_s=round(wall, 2),
              violations=violations, assumptions=assumptions)
    p = os.path.join(evdir, pid + ".json")
    json.dump(ev, open(p, "w"), indent=1, default=str)
    return p
