-------------------------------- MODULE Sexp ---------------------------------
(***************************************************************************)
(* The s-expression reader (package sexp) and the libotr key-file importer  *)
(* and exporter built on it (keys.go), on sequences of characters.          *)
(*                                                                          *)
(* The reader is a recursive descent over a byte stream with one character  *)
(* of look-ahead; every function below is one function of the package and   *)
(* returns the position at which the real reader stands afterwards.  The    *)
(* reader is lenient (an unterminated string is a nil value inside a list,  *)
(* not an error); the specification says exactly what it returns, so the    *)
(* real reader can be compared on every input:                              *)
(*   - TLC enumerates every character string up to MaxLen over Chars and    *)
(*     prints (input, value, position) vectors for sexp.ReadValue;          *)
(*   - TLC enumerates single and double token mutations of a well-formed    *)
(*     key file and prints (input, accepted, accounts) vectors for          *)
(*     ImportKeys;                                                          *)
(*   - TLC checks (ASSUME) that reading what the exporter writes gives the  *)
(*     accounts back, for every account name over the permitted characters, *)
(*     that the reader never moves backwards and never reads past the end.  *)
(***************************************************************************)
EXTENDS Naturals, Sequences, FiniteSets, TLC, Json, SequencesExt

CONSTANTS Letters,   \* ordinary characters of the exhaustive reader enumeration (one-character strings), e.g. {"a", "1", "g"}
          MaxLen,    \* maximal input length of that enumeration
          NameLen,   \* account names up to this length are enumerated for the export/import round trip
          MaxMut,    \* 1: single token mutations of the key file, 2: also pairs
          Export,
          OutFile    \* where the vectors are written (one JSON object per line)

\* ---- characters ---------------------------------------------------------
\* the characters the reader treats specially are always part of the enumeration
Chars == {"(", ")", "\"", "#", " "} \cup Letters
IsWS(c) == c \in {" ", "\t", "\n", "\r"}
NotSymChar(c) == IsWS(c) \/ c = "(" \/ c = ")"
HexDigits == {"0", "1", "2", "3", "4", "5", "6", "7", "8", "9", "a", "b", "c", "d", "e", "f", "A", "B", "C", "D", "E", "F"}
Upper(c) == CASE c = "a" -> "A" [] c = "b" -> "B" [] c = "c" -> "C" [] c = "d" -> "D" [] c = "e" -> "E" [] c = "f" -> "F" [] OTHER -> c

RECURSIVE Join(_)
Join(q) == IF q = <<>> THEN "" ELSE Head(q) \o Join(Tail(q))

RECURSIVE StripZeros(_)
StripZeros(q) == IF Len(q) > 1 /\ Head(q) = "0" THEN StripZeros(Tail(q)) ELSE q

\* big.Int.SetString(s, 16): optional sign, at least one digit, digits only; printed with %X
HexValid(q) == LET d == IF q # <<>> /\ Head(q) \in {"+", "-"} THEN Tail(q) ELSE q
               IN d # <<>> /\ \A i \in DOMAIN d : d[i] \in HexDigits
HexCanon(q) == LET neg == q # <<>> /\ Head(q) = "-"
                   d == StripZeros(IF q # <<>> /\ Head(q) \in {"+", "-"} THEN Tail(q) ELSE q)
                   u == Join([i \in DOMAIN d |-> Upper(d[i])])
               IN IF neg /\ u # "0" THEN "-" \o u ELSE u

\* ---- the reader ---------------------------------------------------------------
RECURSIVE SkipWS(_, _)
SkipWS(s, i) == IF i <= Len(s) /\ IsWS(s[i]) THEN SkipWS(s, i + 1) ELSE i

RECURSIVE UntilChar(_, _, _)
UntilChar(s, i, c) == IF i <= Len(s) /\ s[i] # c THEN UntilChar(s, i + 1, c) ELSE i
RECURSIVE UntilNotSym(_, _)
UntilNotSym(s, i) == IF i <= Len(s) /\ ~NotSymChar(s[i]) THEN UntilNotSym(s, i + 1) ELSE i

\* expect: skip white space, read one byte, put it back unless it is c
Expect(s, i, c) == LET j == SkipWS(s, i) IN
                   IF j > Len(s) THEN [ok |-> FALSE, i |-> j]
                   ELSE IF s[j] = c THEN [ok |-> TRUE, i |-> j + 1] ELSE [ok |-> FALSE, i |-> j]

\* a value: k = kind, d = characters (symbol, string, digits of a number), r = canonical rendering
Val(k, d, r, i, end) == [k |-> k, d |-> d, r |-> r, i |-> i, end |-> end]
NilV(i, end) == Val("nil", <<>>, "N", i, end)

ReadString(s, i0) ==
  LET e1 == Expect(s, i0, "\"") IN
  IF ~e1.ok THEN NilV(e1.i, FALSE) ELSE
  LET k == UntilChar(s, e1.i, "\"")
      e2 == Expect(s, k, "\"")
      d == SubSeq(s, e1.i, k - 1)
  IN IF ~e2.ok THEN NilV(e2.i, FALSE) ELSE Val("str", d, "s:" \o Join(d), e2.i, FALSE)

ReadBigNum(s, i0) ==
  LET e1 == Expect(s, i0, "#") IN
  IF ~e1.ok THEN NilV(e1.i, FALSE) ELSE
  LET k == UntilChar(s, e1.i, "#")
      e2 == Expect(s, k, "#")
      d == SubSeq(s, e1.i, k - 1)
  IN IF ~e2.ok THEN NilV(e2.i, FALSE)
     ELSE Val("num", IF HexValid(d) THEN d ELSE <<>>, "n:" \o (IF HexValid(d) THEN HexCanon(d) ELSE "<nil>"), e2.i, FALSE)

ReadSymbol(s, i0) ==
  LET j == SkipWS(s, i0)
      k == UntilNotSym(s, j)
      d == SubSeq(s, j, k - 1)
  IN Val("sym", d, "y:" \o Join(d), k, FALSE)

RECURSIVE ReadValue(_, _), ReadList(_, _), ReadListItem(_, _)
ReadValue(s, i0) ==
  LET j == SkipWS(s, i0) IN
  IF j > Len(s) THEN NilV(j, TRUE)
  ELSE CASE s[j] = "(" -> ReadList(s, j)
         [] s[j] = ")" -> NilV(j, TRUE)
         [] s[j] = "\"" -> ReadString(s, j)
         [] s[j] = "#" -> ReadBigNum(s, j)
         [] OTHER -> ReadSymbol(s, j)

ReadList(s, i0) ==
  LET e1 == Expect(s, i0, "(") IN
  IF ~e1.ok THEN NilV(e1.i, FALSE) ELSE
  LET items == ReadListItem(s, e1.i)
      e2 == Expect(s, items.i, ")")
  IN IF ~e2.ok THEN NilV(e2.i, FALSE) ELSE [items EXCEPT !.i = e2.i]

ReadListItem(s, i0) ==
  LET r == ReadValue(s, SkipWS(s, i0)) IN
  IF r.end THEN Val("snil", <<>>, "()", r.i, FALSE)
  ELSE LET rest == ReadListItem(s, r.i)
       IN Val("cons", <<>>, "(" \o r.r \o " . " \o rest.r \o ")", rest.i, FALSE)

\* ---- the key-file importer (keys.go) ---------------------------------------------
PRIVKEYS == <<"p", "r", "i", "v", "k", "e", "y", "s">>
ACCOUNT == <<"a", "c", "c", "o", "u", "n", "t">>
NAME == <<"n", "a", "m", "e">>
PROTOCOL == <<"p", "r", "o", "t", "o", "c", "o", "l">>
PRIVATEKEY == <<"p", "r", "i", "v", "a", "t", "e", "-", "k", "e", "y">>
DSA == <<"d", "s", "a">>
ParamTags == {<<"p">>, <<"q">>, <<"g">>, <<"y">>, <<"x">>}

PotentialSymbol(s, i) == LET r == ReadValue(s, i) IN [ok |-> r.k = "sym", d |-> r.d, i |-> r.i]
PotentialStringOrSymbol(s, i) == LET r == ReadValue(s, i) IN [ok |-> r.k \in {"sym", "str"}, d |-> r.d, i |-> r.i]
\* a number whose digits are not hexadecimal is a BigNum holding no integer: accepted, value nil
PotentialBigNum(s, i) == LET r == ReadValue(s, i) IN [ok |-> r.k = "num", v |-> IF r.k = "num" THEN r.r ELSE "n:<nil>", i |-> r.i]
SymbolAndExpect(s, i, w) == LET r == PotentialSymbol(s, i) IN [ok |-> r.ok /\ r.d = w, i |-> r.i]

\* (tag #value#)
ReadParameter(s, i) ==
  LET e1 == Expect(s, i, "(") IN
  IF ~e1.ok THEN [end |-> TRUE, ok |-> TRUE, tag |-> <<>>, v |-> "", i |-> e1.i] ELSE
  LET t == PotentialSymbol(s, e1.i)
      n == PotentialBigNum(s, t.i)
      e2 == Expect(s, n.i, ")")
  IN IF ~e2.ok THEN [end |-> TRUE, ok |-> TRUE, tag |-> <<>>, v |-> "", i |-> e2.i]
     ELSE [end |-> FALSE, ok |-> t.ok /\ n.ok, tag |-> t.d, v |-> n.v, i |-> e2.i]

NoParams == [t \in ParamTags |-> "unset"]
RECURSIVE ReadParams(_, _, _)
ReadParams(s, i, acc) ==
  LET p == ReadParameter(s, i) IN
  IF ~p.ok THEN [ok |-> FALSE, params |-> acc, i |-> p.i]
  ELSE IF p.end THEN [ok |-> TRUE, params |-> acc, i |-> p.i]
  ELSE IF p.tag \notin ParamTags THEN [ok |-> FALSE, params |-> acc, i |-> p.i]
  ELSE ReadParams(s, p.i, [acc EXCEPT ![p.tag] = p.v])

\* (dsa (p ..) (q ..) ...): on a bad parameter the function returns at once, the list is not closed
ReadDSAPrivateKey(s, i) ==
  LET e1 == Expect(s, i, "(")
      ok1 == SymbolAndExpect(s, e1.i, DSA)
      ps == ReadParams(s, ok1.i, NoParams)
  IN IF ~ps.ok THEN [ok |-> FALSE, params |-> NoParams, i |-> ps.i]
     ELSE LET e2 == Expect(s, ps.i, ")") IN [ok |-> ok1.ok /\ e2.ok, params |-> ps.params, i |-> e2.i]

ReadPrivateKey(s, i) ==
  LET e1 == Expect(s, i, "(")
      ok1 == SymbolAndExpect(s, e1.i, PRIVATEKEY)
      k == ReadDSAPrivateKey(s, ok1.i)
      e3 == Expect(s, k.i, ")")
  IN [ok |-> ok1.ok /\ k.ok /\ e3.ok, params |-> IF k.ok THEN k.params ELSE NoParams, i |-> e3.i]

ReadAccountName(s, i) ==
  LET e1 == Expect(s, i, "(")
      ok1 == SymbolAndExpect(s, e1.i, NAME)
      nm == PotentialStringOrSymbol(s, ok1.i)
      e3 == Expect(s, nm.i, ")")
  IN [ok |-> ok1.ok /\ nm.ok /\ e3.ok, d |-> IF nm.ok THEN nm.d ELSE <<>>, i |-> e3.i]

ReadAccountProtocol(s, i) ==
  LET e1 == Expect(s, i, "(")
      ok1 == SymbolAndExpect(s, e1.i, PROTOCOL)
      nm == PotentialSymbol(s, ok1.i)
      e3 == Expect(s, nm.i, ")")
  IN [ok |-> ok1.ok /\ nm.ok /\ e3.ok, d |-> IF nm.ok THEN nm.d ELSE <<>>, i |-> e3.i]

ReadAccount(s, i) ==
  LET e1 == Expect(s, i, "(") IN
  IF ~e1.ok THEN [atEnd |-> TRUE, ok |-> TRUE, acc |-> <<>>, i |-> e1.i] ELSE
  LET ok1 == SymbolAndExpect(s, e1.i, ACCOUNT)
      nm == ReadAccountName(s, ok1.i)
      pr == ReadAccountProtocol(s, nm.i)
      k == ReadPrivateKey(s, pr.i)
      e5 == Expect(s, k.i, ")")
  IN [atEnd |-> FALSE, ok |-> ok1.ok /\ nm.ok /\ pr.ok /\ k.ok /\ e5.ok,
      acc |-> [name |-> Join(nm.d), protocol |-> Join(pr.d), params |-> [t \in {"p", "q", "g", "y", "x"} |-> k.params[<<t>>]]], i |-> e5.i]

RECURSIVE ReadAccountList(_, _, _, _)
ReadAccountList(s, i, ok, accs) ==
  LET a == ReadAccount(s, i) IN
  IF a.atEnd THEN [ok |-> ok /\ a.ok, accs |-> accs, i |-> a.i]
  ELSE ReadAccountList(s, a.i, ok /\ a.ok, Append(accs, a.acc))

Import(s) ==
  LET e1 == Expect(s, 1, "(")
      ok1 == SymbolAndExpect(s, e1.i, PRIVKEYS)
      l == ReadAccountList(s, ok1.i, TRUE, <<>>)
      e3 == Expect(s, l.i, ")")
  IN [ok |-> ok1.ok /\ l.ok /\ e3.ok, accs |-> IF ok1.ok /\ l.ok /\ e3.ok THEN l.accs ELSE <<>>, i |-> e3.i]

\* ---- the exporter -------------------------------------------------------------------
NL == <<"\n">>
Sp(n) == [k \in 1..n |-> " "]
ExportParam(tag, digits) == Sp(8) \o <<"(">> \o tag \o <<" ", "#">> \o digits \o <<"#", ")">> \o NL
ExportAccount(a) ==
  Sp(2) \o <<"(">> \o ACCOUNT \o NL
  \o Sp(4) \o <<"(">> \o NAME \o <<" ", "\"">> \o a.name \o <<"\"", ")">> \o NL
  \o Sp(4) \o <<"(">> \o PROTOCOL \o <<" ">> \o a.protocol \o <<")">> \o NL
  \o Sp(4) \o <<"(">> \o PRIVATEKEY \o NL
  \o Sp(6) \o <<"(">> \o DSA \o NL
  \o ExportParam(<<"p">>, a.p) \o ExportParam(<<"q">>, a.q) \o ExportParam(<<"g">>, a.g) \o ExportParam(<<"y">>, a.y) \o ExportParam(<<"x">>, a.x)
  \o Sp(6) \o <<")">> \o NL
  \o Sp(4) \o <<")">> \o NL
  \o Sp(2) \o <<")">> \o NL
RECURSIVE ExportAll(_)
ExportAll(as) == IF as = <<>> THEN <<>> ELSE ExportAccount(Head(as)) \o ExportAll(Tail(as))
ExportFile(as) == <<"(">> \o PRIVKEYS \o NL \o ExportAll(as) \o <<")">> \o NL

\* ---- what TLC checks -------------------------------------------------------------------
RECURSIVE SeqsUpTo(_, _)
SeqsUpTo(A, n) == IF n = 0 THEN {<<>>} ELSE SeqsUpTo(A, n - 1) \cup {Append(q, a) : q \in SeqsUpTo(A, n - 1), a \in A}

Inputs == SeqsUpTo(Chars, MaxLen)

\* the reader never moves backwards, never past the end, and consumes something unless at the end
ReaderProgress == \A s \in Inputs : LET r == ReadValue(s, 1) IN
                     /\ r.i >= 1 /\ r.i <= Len(s) + 1
                     /\ (~r.end => r.i > 1)
                     /\ (r.end => r.k = "nil")

\* account names over the characters a name may contain (everything but the double quote);
\* protocol names are symbols (no white space, no parentheses, not starting like another kind of value)
NameChars == {"a", "Z", "0", "@", ".", "/", " ", "(", ")", "#", "-", "\\", "'", "\t"}
Names == SeqsUpTo(NameChars, NameLen) \cup {<<"a", "@", "b", ".", "c", "/", "r", " ", "(", "x", ")">>}
Digits == {<<"1">>, <<"A", "0">>, <<"F", "F", "0", "1">>, <<"0">>}
Account(n, pr, d) == [name |-> n, protocol |-> pr, p |-> d, q |-> <<"2">>, g |-> <<"3">>, y |-> <<"4">>, x |-> <<"5">>]
Expected(a) == [name |-> Join(a.name), protocol |-> Join(a.protocol),
                params |-> [t \in {"p", "q", "g", "y", "x"} |-> "n:" \o HexCanon(a[t])]]
RoundTripFile ==
  \A n \in Names : \A d \in Digits : \A pr \in {<<"x">>, <<"p", "r", "p", "l", "-", "j">>} :
     LET a == Account(n, pr, d) IN
     /\ Import(ExportFile(<<a>>)) = [ok |-> TRUE, accs |-> <<Expected(a)>>, i |-> Len(ExportFile(<<a>>)) ]
     /\ Import(ExportFile(<<a, a>>)).accs = <<Expected(a), Expected(a)>>
RoundTripEmpty == Import(ExportFile(<<>>)).ok /\ Import(ExportFile(<<>>)).accs = <<>>

ASSUME ReaderProgress
ASSUME RoundTripFile
ASSUME RoundTripEmpty

\* ---- vectors: token mutations of a well-formed key file -----------------------------------
LP == <<"(">>
RP == <<")">>
BaseTokens == <<LP, PRIVKEYS, LP, ACCOUNT, LP, NAME, <<"\"", "n", "\"">>, RP, LP, PROTOCOL, <<"x">>, RP,
                LP, PRIVATEKEY, LP, DSA, LP, <<"p">>, <<"#", "1", "#">>, RP, LP, <<"q">>, <<"#", "2", "#">>, RP,
                LP, <<"g">>, <<"#", "3", "#">>, RP, LP, <<"y">>, <<"#", "4", "#">>, RP, LP, <<"x">>, <<"#", "5", "#">>, RP,
                RP, RP, RP, RP>>
MutTokens == {LP, RP, PRIVKEYS, ACCOUNT, NAME, PROTOCOL, PRIVATEKEY, DSA, <<"p">>, <<"z">>, <<"\"", "s", "\"">>, <<"#", "7", "#">>,
              <<"#", "g", "#">>, <<"#", "#">>, <<"\"">>, <<"#">>, <<"#", "9">>}
\* a mutation: delete token k, replace it, or insert before it
Mutations(ts) ==
  {[j \in 1..(Len(ts) - 1) |-> IF j < k THEN ts[j] ELSE ts[j + 1]] : k \in DOMAIN ts}
  \cup {[ts EXCEPT ![k] = t] : k \in DOMAIN ts, t \in MutTokens}
  \cup {[j \in 1..(Len(ts) + 1) |-> IF j < k THEN ts[j] ELSE IF j = k THEN t ELSE ts[j - 1]] : k \in 1..(Len(ts) + 1), t \in MutTokens}
RECURSIVE Flatten(_)
Flatten(ts) == IF ts = <<>> THEN <<>> ELSE Head(ts) \o <<" ">> \o Flatten(Tail(ts))
\* the same tokens without separators where the grammar does not need one
RECURSIVE FlattenTight(_)
FlattenTight(ts) == IF ts = <<>> THEN <<>>
                    ELSE IF Len(ts) > 1 /\ (Head(ts) \in {LP, RP} \/ ts[2] \in {LP, RP}) THEN Head(ts) \o FlattenTight(Tail(ts))
                    ELSE Head(ts) \o <<" ">> \o FlattenTight(Tail(ts))

Mut1 == Mutations(BaseTokens)
\* pairs: a second mutation of a sample of the first ones (every 7th position) to keep the set small
Mut2 == IF MaxMut < 2 THEN {} ELSE UNION {Mutations(m) : m \in {[BaseTokens EXCEPT ![k] = t] : k \in {2, 7, 11, 14, 16, 19, 20, 38, 41}, t \in {LP, RP, <<"z">>, <<"#", "g", "#">>}}
                                             \cup {[j \in 1..(Len(BaseTokens) - 1) |-> IF j < k THEN BaseTokens[j] ELSE BaseTokens[j + 1]] : k \in {1, 3, 8, 20, 37, 41}}}
KeyFileInputs == {Flatten(m) : m \in Mut1 \cup Mut2 \cup {BaseTokens}} \cup {FlattenTight(m) : m \in Mut1 \cup {BaseTokens}}

ImportProgress == \A s \in KeyFileInputs : LET r == Import(s) IN r.i >= 1 /\ r.i <= Len(s) + 1
ASSUME ImportProgress

VARIABLE done
Init == done = FALSE
ReadVectors == {LET r == ReadValue(s, 1) IN [kind |-> "read", in |-> Join(s), v |-> r.r, pos |-> r.i - 1, end |-> r.end] : s \in Inputs}
\* what the exporter must write, character for character
ExportVectors == {LET a == Account(n, pr, d) IN
                    [kind |-> "export", name |-> Join(n), protocol |-> Join(pr), p |-> Join(d), out |-> Join(ExportFile(<<a, a>>))] :
                  n \in Names, d \in Digits, pr \in {<<"x">>, <<"p", "r", "p", "l", "-", "j">>}}
ImportVectors == {LET r == Import(s) IN [kind |-> "import", in |-> Join(s), ok |-> r.ok, accs |-> r.accs] : s \in KeyFileInputs}
Next == /\ ~done /\ done' = TRUE
        /\ (Export => ndJsonSerialize(OutFile, SetToSeq(ReadVectors) \o SetToSeq(ImportVectors) \o SetToSeq(ExportVectors)))
Spec == Init /\ [][Next]_done

=============================================================================
