------------------------------ MODULE Ratchet ------------------------------
(***************************************************************************)
(* The key-id bookkeeping of one endpoint, cut out of OTR.tla: the ids of  *)
(* our and the peer's newest DH key and the two tables that are indexed by *)
(* pairs of key ids (replay counters, recorded receiving MAC keys).        *)
(*                                                                         *)
(* Purpose: C19 and C05 speak about *every* history, TLC only explores     *)
(* bounded ones.  Here the bound on the two tables is an inductive         *)
(* invariant (IndInv), discharged by Apalache for unbounded key ids:       *)
(*     apalache-mc check --init=IndInit --inv=IndInv --length=1            *)
(*     apalache-mc check --init=Init    --inv=IndInv --length=0            *)
(* and the module is bound to the rest of the machinery in two places:     *)
(*   - OTRModel.tla: TLC checks, as an action property, that every step of *)
(*     OTR.tla projected on these fields is a step of this module          *)
(*     (RatchetRefines), i.e. OTR.tla refines Ratchet;                     *)
(*   - OTRTrace.tla: for every recorded API call of the real code the pair *)
(*     (projection before, logged projection after) must be a Ratchet step *)
(*     (trace property, C19/C05): the code follows an abstraction whose    *)
(*     tables are bounded for all histories, not only the explored ones.   *)
(***************************************************************************)
EXTENDS Integers, FiniteSets

\* @typeAlias: TT = { oid: Int, tid: Int, ctrs: Set(<<Int, Int>>), macs: Set(<<Int, Int>>) };
Ratchet_aliases == TRUE

VARIABLE
  \* @type: TT;
  r

\* the key-id pairs a conversation can hold state for: our current / previous key with their current / previous key
\* @type: (Int, Int) => Set(<<Int, Int>>);
Window(oid, tid) == {oid - 1, oid} \X {tid - 1, tid}

\* @type: (TT) => Bool;
Bounded(a) == /\ a.ctrs \subseteq Window(a.oid, a.tid)
              /\ a.macs \subseteq Window(a.oid, a.tid)

\* no session: nothing is kept
\* @type: (TT) => Bool;
Idle(a) == a.oid = 0 /\ a.tid = 0 /\ a.ctrs = {} /\ a.macs = {}

(* The steps.  StepTo(a, b, O, T) says that b is a successor of a, the new key ids of a completed key exchange
   being drawn from O and T.  It is written as "b = <expression over a>" throughout, so that Apalache reads
   Next == StepTo(r, r', Nat, Nat) as assignments, while TLC evaluates the same formula on any two records as
   RStep(a, b) == StepTo(a, b, {b.oid}, {b.tid}) (if some o in Nat makes b = [oid |-> o, ...] then o = b.oid:
   the two differ in the quantifier's domain only). *)

\* one data message generated: sending key pair (oid - 1, tid)
\* @type: (TT) => TT;
AfterSend(a) == [a EXCEPT !.ctrs = @ \cup {<<a.oid - 1, a.tid>>}, !.macs = @ \cup {<<a.oid - 1, a.tid>>}]

\* one data message accepted under (rk, sk), with the rotations it causes
\* @type: (TT, Int, Int) => TT;
AfterRecv(a, rk, sk) ==
  LET a1 == [a EXCEPT !.ctrs = @ \cup {<<rk, sk>>}, !.macs = @ \cup {<<rk, sk>>}]
      a2 == IF rk = a1.oid
            THEN [a1 EXCEPT !.ctrs = {c \in @ : c[1] >= a1.oid}, !.macs = {k \in @ : k[1] # a1.oid - 1}, !.oid = @ + 1]
            ELSE a1
      a3 == IF sk = a2.tid
            THEN [a2 EXCEPT !.ctrs = {c \in @ : c[2] >= a2.tid}, !.macs = {k \in @ : k[2] # a2.tid - 1}, !.tid = @ + 1]
            ELSE a2
  IN a3

\* @type: (TT, TT, Set(Int), Set(Int)) => Bool;
StepTo(a, b, O, T) ==
  \* nothing changes: a rejected message (the repaired code records nothing for it), a call that does not touch the keys
  \/ b = a
  \* a key exchange completes (also a refresh): new key ids, empty tables ...
  \/ \E o \in O : \E t \in T : o >= 1 /\ t >= 1 /\ b = [oid |-> o, tid |-> t, ctrs |-> {}, macs |-> {}]
  \* ... and the messages that were waiting for it go out at once, all under the first key pair
  \/ \E o \in O : \E t \in T : o >= 1 /\ t >= 1 /\ b = [oid |-> o, tid |-> t, ctrs |-> {<<o - 1, t>>}, macs |-> {<<o - 1, t>>}]
  \* the peer's disconnect: everything goes (End() itself keeps ids and tables: a sending step or none)
  \/ b = [oid |-> 0, tid |-> 0, ctrs |-> {}, macs |-> {}]
  \* a user call that generates data messages (all under the same pair)
  \/ a.oid >= 1 /\ a.tid >= 1 /\ b = AfterSend(a)
  \* a data message accepted; the call may generate messages afterwards (SMP reply, heartbeat)
  \/ /\ a.oid >= 1 /\ a.tid >= 1
     /\ \E rk \in {a.oid - 1, a.oid} : \E sk \in {a.tid - 1, a.tid} :
          /\ rk >= 1 /\ sk >= 1
          /\ (b = AfterRecv(a, rk, sk) \/ b = AfterSend(AfterRecv(a, rk, sk)))

\* @type: (TT, TT) => Bool;
RStep(a, b) == StepTo(a, b, {b.oid}, {b.tid})

Init == r = [oid |-> 0, tid |-> 0, ctrs |-> {}, macs |-> {}]
Next == StepTo(r, r', Nat, Nat)

\* ------------------------------------------------------------------------
\* The inductive invariant
\* ------------------------------------------------------------------------
TypeOK == r.oid >= 0 /\ r.tid >= 0
IndInv == TypeOK /\ Bounded(r)

\* any state satisfying the invariant (Apalache needs every variable bounded by a set expression)
IndInit ==
  \E o \in Nat : \E t \in Nat : \E cs \in SUBSET Window(o, t) : \E ms \in SUBSET Window(o, t) :
     r = [oid |-> o, tid |-> t, ctrs |-> cs, macs |-> ms]

\* what C19 states about these tables, a consequence of the invariant
SizeInv == Cardinality(r.ctrs) <= 4 /\ Cardinality(r.macs) <= 4
=============================================================================
