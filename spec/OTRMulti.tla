------------------------------ MODULE OTRMulti ------------------------------
(***************************************************************************)
(* One account logged in twice.  A talks to the account of B; B is logged  *)
(* in from two clients, the endpoints "B" and "C": same long-term key      *)
(* (KeyOf), their own instance tags and DH secrets.  The transport is that *)
(* of an instant-messaging server: what A sends reaches both clients, what *)
(* either client sends reaches A.  Every endpoint is one OTR.tla endpoint  *)
(* (one `Conversation` of the code).  This is the situation the instance   *)
(* tags of OTR version 3 exist for (property C15): A's conversation binds  *)
(* to the first client that takes part in a key exchange with it and from  *)
(* then on the other client's messages, and A's messages at the other      *)
(* client, must be ignored without any effect, while the bound pair's      *)
(* session works as if the other client were not there.                    *)
(*                                                                         *)
(* TLC explores every interleaving of the three endpoints' user calls and  *)
(* of the deliveries, checks the properties below and exports the          *)
(* schedules (as OTRModel does) for replay on three real conversations.    *)
(***************************************************************************)
EXTENDS OTR, Json

CONSTANTS
  Pol,        \* endpoint -> policy record
  Prelude,    \* start pattern: sequence of [a, p] user steps executed first
  MaxSend,    \* user texts per endpoint after the prelude
  MaxFlight,  \* bound on a receiver's queue when a user sends
  MaxQuery, MaxEnd, MaxTick,  \* budgets of further user calls (total)
  Export

Parties == {"A", "B", "C"}
Insts == {"B", "C"}
Base(p) == IF p = "A" THEN 100 ELSE IF p = "B" THEN 200 ELSE 400
Recipients(p) == IF p = "A" THEN Insts ELSE {"A"}

VARIABLES
  st, net, nx, nt, nsend, pc, phase, order, budget,
  sentby,     \* text id -> <<sender, the instance tag the sender was bound to, sender was encrypted>>
  delivered,  \* endpoint -> sequence of <<text, flagged as unencrypted, receiver's bound tag, receiver was encrypted>>
  rejects,    \* data messages of the bound peer that a receiver rejected
  bystander,  \* number of calls in which a message from / for another instance had any effect
  path

vars == <<st, net, nx, nt, nsend, pc, phase, order, budget, sentby, delivered, rejects, bystander, path>>
view == <<st, net, nx, nt, nsend, pc, phase, order, budget, sentby, delivered, rejects, bystander>>

FreshId(p) == Base(p) + nx[p] + 1
Uses(s, id) == s.ax = id \/ s.cur = id

Init ==
  /\ st = [p \in Parties |-> InitParty(p, Pol[p], 0)]
  /\ net = [p \in Parties |-> <<>>]
  /\ nx = [p \in Parties |-> 0]
  /\ nt = 0
  /\ nsend = [p \in Parties |-> 0]
  /\ pc = 1
  /\ phase = IF Prelude # <<>> THEN "setup" ELSE "free"
  /\ order = {}
  /\ budget = [query |-> MaxQuery, end |-> MaxEnd, tick |-> MaxTick]
  /\ sentby = <<>>
  /\ delivered = [p \in Parties |-> <<>>]
  /\ rejects = 0
  /\ bystander = 0
  /\ path = <<>>

\* common effect of an API call by p with result r: what p emits reaches every recipient
Effect(p, r, step, own) ==
  /\ st' = [st EXCEPT ![p] = r.s]
  /\ net' = [q \in Parties |-> IF q = p THEN own ELSE IF q \in Recipients(p) THEN net[q] \o r.out ELSE net[q]]
  /\ nx' = [nx EXCEPT ![p] = IF Uses(r.s, FreshId(p)) /\ ~Uses(st[p], FreshId(p)) THEN @ + 1 ELSE @]
  /\ path' = IF Export THEN Append(path, step) ELSE path

Unflagged(r) == ~\E i \in DOMAIN r.evs : r.evs[i] = "msg:ReceivedMessageUnencrypted"
Binary(m) == m.t \in {"DHC", "DHK", "RS", "SIG", "D"}

\* a v3 message that is not from the instance p is bound to, or addressed to another instance than p
Foreign(p, m) == /\ Binary(m) /\ m.v = 3 /\ st[p].ver = 3 /\ st[p].ttag # 0
                 /\ (m.st # st[p].ttag \/ (m.rt # 0 /\ m.rt # st[p].otag))

Deliver(p) ==
  /\ net[p] # <<>>
  /\ LET m == Head(net[p]) IN
     \E hi \in (IF m.t = "DHC" /\ st[p].auth = "awDHKey"
                 THEN (IF <<st[p].ax, m.hash>> \in order THEN {TRUE}
                       ELSE IF <<m.hash, st[p].ax>> \in order \/ m.hash = st[p].ax THEN {FALSE} ELSE BOOLEAN)
                 ELSE {FALSE}) :
       LET r == ReceiveFrags(st[p], m, 1, FreshId(p), hi)
       IN /\ Effect(p, r, [a |-> "Deliver", p |-> p, i |-> 0, hi |-> hi], Tail(net[p]))
          /\ order' = IF m.t = "DHC" /\ st[p].auth = "awDHKey" /\ m.hash # st[p].ax
                      THEN order \cup {IF hi THEN <<st[p].ax, m.hash>> ELSE <<m.hash, st[p].ax>>} ELSE order
          /\ delivered' = [delivered EXCEPT ![p] = IF r.plain # NoText THEN Append(@, <<r.plain, ~Unflagged(r), st[p].ttag, st[p].ms = "enc">>) ELSE @]
          /\ rejects' = IF m.t = "D" /\ ~Foreign(p, m) /\ st[p].ms = "enc"
                           /\ (r.err \/ \E i \in DOMAIN r.evs : r.evs[i] = "msg:ReceivedMessageUnreadable")
                        THEN rejects + 1 ELSE rejects
          /\ bystander' = IF Foreign(p, m) /\ (r.s # st[p] \/ r.plain # NoText \/ r.out # <<>>) THEN bystander + 1 ELSE bystander
  /\ UNCHANGED <<nt, nsend, sentby, budget>>

DoSend(p) ==
  LET r == Send(st[p], nt + 1)
  IN /\ Effect(p, r, [a |-> "Send", p |-> p, t |-> nt + 1], net[p])
     /\ nt' = nt + 1
     /\ sentby' = Append(sentby, <<p, st[p].ttag, st[p].ms = "enc" /\ ~r.err>>)

PreludeStep ==
  /\ phase = "setup"
  /\ IF pc <= Len(Prelude) THEN
       LET s == Prelude[pc]
           p == s.p
       IN /\ pc' = pc + 1
          /\ CASE s.a = "Query" -> /\ Effect(p, Query(st[p]), [a |-> "Query", p |-> p], net[p])
                                     /\ UNCHANGED <<nt, sentby>>
               [] s.a = "Send" -> DoSend(p)
          /\ UNCHANGED <<phase, nsend, order, budget, delivered, rejects, bystander>>
     ELSE /\ phase' = "free"
          /\ UNCHANGED <<st, net, nx, nt, nsend, pc, order, budget, sentby, delivered, rejects, bystander, path>>

FreeDeliver(p) == phase = "free" /\ Deliver(p) /\ UNCHANGED <<pc, phase>>

UserSend(p) ==
  /\ phase = "free" /\ nsend[p] < MaxSend
  /\ \A q \in Recipients(p) : Len(net[q]) < MaxFlight
  /\ DoSend(p)
  /\ nsend' = [nsend EXCEPT ![p] = @ + 1]
  /\ UNCHANGED <<pc, phase, order, budget, delivered, rejects, bystander>>

UserQuery(p) ==
  /\ phase = "free" /\ budget.query > 0
  /\ Effect(p, Query(st[p]), [a |-> "Query", p |-> p], net[p])
  /\ budget' = [budget EXCEPT !.query = @ - 1]
  /\ UNCHANGED <<nt, nsend, pc, phase, order, sentby, delivered, rejects, bystander>>

UserEnd(p) ==
  /\ phase = "free" /\ budget.end > 0
  /\ Effect(p, End(st[p]), [a |-> "End", p |-> p], net[p])
  /\ budget' = [budget EXCEPT !.end = @ - 1]
  /\ UNCHANGED <<nt, nsend, pc, phase, order, sentby, delivered, rejects, bystander>>

UserTick(p) ==
  /\ phase = "free" /\ budget.tick > 0
  /\ ~(st[p].hb /\ ~st[p].rstep /\ ~st[p].renc)
  /\ Effect(p, Tick(st[p]), [a |-> "Tick", p |-> p], net[p])
  /\ budget' = [budget EXCEPT !.tick = @ - 1]
  /\ UNCHANGED <<nt, nsend, pc, phase, order, sentby, delivered, rejects, bystander>>

Next ==
  \/ PreludeStep
  \/ \E p \in Parties : FreeDeliver(p) \/ UserSend(p) \/ UserQuery(p) \/ UserEnd(p) \/ UserTick(p)

Spec == Init /\ [][Next]_vars
FairSpec == Spec /\ WF_vars(\E p \in Parties : FreeDeliver(p)) /\ WF_vars(PreludeStep)

Emit == Export => PrintT(<<"SCHED", ToJson(path')>>)

\* ------------------------------------------------------------------------
\* Properties
\* ------------------------------------------------------------------------
InstOfTag(t) == IF t = 2 THEN "B" ELSE IF t = 3 THEN "C" ELSE IF t = 1 THEN "A" ELSE "?"
OwnerOf(id) == IF id > 100 /\ id < 200 THEN "A" ELSE IF id > 200 /\ id < 300 THEN "B" ELSE IF id > 400 /\ id < 500 THEN "C" ELSE "?"
Quiet == \A p \in Parties : net[p] = <<>>

\* C15: a bound peer instance never changes
BoundStable == [][\A p \in Parties : st[p].ttag # 0 => st'[p].ttag = st[p].ttag]_vars

\* C15: a message from or for another instance has no effect whatsoever
BystanderIgnored == bystander = 0

\* C15/C02: what an encrypted endpoint hands its user unflagged was sent, encrypted, by the very instance the
\* endpoint is bound to, at a time when that instance was bound to this endpoint
DeliveredFromBound ==
  \A p \in Parties : \A i \in DOMAIN delivered[p] :
     LET d == delivered[p][i]
         sb == sentby[d[1]]
     IN (~d[2] /\ d[4]) => (TagOf(sb[1]) = d[3] /\ sb[2] = TagOf(p) /\ sb[3])

\* C15/C01: an encrypted endpoint's session is shared with the instance it is bound to (not merely with the account)
PairedWithBound ==
  \A p \in Parties : (st[p].ms = "enc" /\ st[p].ver = 3) =>
     /\ st[p].ttag # 0 /\ st[p].peer = KeyOf(InstOfTag(st[p].ttag))
     /\ {OwnerOf(st[p].sess[1]), OwnerOf(st[p].sess[2])} = {p, InstOfTag(st[p].ttag)}
     /\ OwnerOf(st[p].tcur) = InstOfTag(st[p].ttag)

\* C15: while A is bound to one client the other client never gets a session with A
OtherNeverSecure ==
  \A q \in Insts : (st["A"].ttag # 0 /\ st["A"].ttag # TagOf(q) /\ st["A"].ver = 3) => st[q].ms # "enc"

\* C04 for the bound pair: the other client's presence never makes a genuine message be rejected
NoBoundReject == rejects = 0

\* C07 with a second client around: the exchange completes between A and one of the clients
\* (a version 2 session has no instance tags)
Paired(q) == /\ st["A"].ms = "enc" /\ st[q].ms = "enc" /\ st["A"].sess = st[q].sess /\ st["A"].sess # <<0, 0>>
             /\ st["A"].ver = st[q].ver
             /\ (st["A"].ver = 3 => (st["A"].ttag = TagOf(q) /\ st[q].ttag = 1)) /\ st["A"].rev # st[q].rev
SomePair == \E q \in Insts : Paired(q)
Completes == <>[]SomePair
Started == \E p \in Parties : st[p].auth \notin {"nil", "none"} \/ st[p].ms = "enc"
QuietImpliesPaired == (Quiet /\ Started /\ phase = "free") => SomePair

\* sanity (expected to be VIOLATED): the second client can be the one that ends up in the session
NeverC == ~Paired("C")
=============================================================================
