------------------------------ MODULE OTRModel ------------------------------
(***************************************************************************)
(* Two OTR endpoints (module OTR), the users driving them and the network  *)
(* between them.  TLC explores every interleaving of user calls and        *)
(* deliveries within the bounds given as constants, checks the properties  *)
(* below, and exports the schedule reaching every transition (history      *)
(* variable `path`, hidden from the fingerprint by VIEW) so that the real  *)
(* implementation can be driven through the same behaviours.               *)
(*                                                                         *)
(* Network modes: "fifo" (reliable, ordered), "bag" (an attacker may       *)
(* deliver any message in flight, duplicate and drop).                     *)
(***************************************************************************)
EXTENDS OTR, Json

CONSTANTS
  Pol,          \* party -> policy record
  Ver0,         \* party -> initial version (0 = negotiate)
  Setup,        \* "none" | "ake": with "ake" a handshake started by A's query runs first
  MaxSend,      \* user texts per party
  MaxFlight,    \* at most this many messages in flight per direction when a user sends
  MaxTick, MaxEnd, MaxQuery, MaxExtra,  \* budgets (total over both parties)
  NetMode,      \* "fifo" | "bag"
  MaxDup,       \* "bag": budget of duplicate deliveries
  MaxDrop,      \* "bag": budget of drops
  Export        \* TRUE: print the schedule of every transition

Parties == {"A", "B"}
Base(p) == IF p = "A" THEN 100 ELSE 200

VARIABLES
  st,        \* party -> endpoint state
  net,       \* party -> sequence of messages addressed to it
  nx,        \* party -> number of DH secrets drawn
  nt,        \* texts handed to Send so far
  phase,     \* "setup" | "free"
  budget,    \* record of remaining budgets
  delivered, \* party -> sequence of <<text, flaggedUnencrypted>> returned by Receive
  accepted,  \* party -> sequence of text ids accepted by Send while encrypted
  rejects,   \* number of data messages rejected by a receiver
  evlog,     \* party -> sequence of security events
  path       \* schedule (history, not part of the fingerprint)

vars == <<st, net, nx, nt, phase, budget, delivered, accepted, rejects, evlog, path>>
view == <<st, net, nx, nt, phase, budget, delivered, accepted, rejects, evlog>>

FreshId(p) == Base(p) + nx[p] + 1
Uses(s, id) == s.ax = id \/ s.cur = id

SecEvents(evs) == SelectSeq(evs, LAMBDA e : e \in {"sec:GoneSecure", "sec:GoneInsecure", "sec:StillSecure"})

Init ==
  /\ st = [p \in Parties |-> InitParty(p, Pol[p], Ver0[p])]
  /\ net = [p \in Parties |-> <<>>]
  /\ nx = [p \in Parties |-> 0]
  /\ nt = 0
  /\ phase = IF Setup = "ake" THEN "setup" ELSE "free"
  /\ budget = [tick |-> MaxTick, end |-> MaxEnd, query |-> MaxQuery, extra |-> MaxExtra, dup |-> MaxDup, drop |-> MaxDrop]
  /\ delivered = [p \in Parties |-> <<>>]
  /\ accepted = [p \in Parties |-> <<>>]
  /\ rejects = 0
  /\ evlog = [p \in Parties |-> <<>>]
  /\ path = <<>>

\* common effect of an API call by p with result r
Effect(p, r, step, own) ==
  /\ st' = [st EXCEPT ![p] = r.s]
  /\ net' = [net EXCEPT ![p] = own, ![Other(p)] = @ \o r.out]
  /\ nx' = [nx EXCEPT ![p] = IF Uses(r.s, FreshId(p)) /\ ~Uses(st[p], FreshId(p)) THEN @ + 1 ELSE @]
  /\ evlog' = [evlog EXCEPT ![p] = @ \o SecEvents(r.evs)]
  /\ path' = Append(path, step)

Unflagged(r) == ~\E i \in DOMAIN r.evs : r.evs[i] = "msg:ReceivedMessageUnencrypted"

DeliverMsg(p, m, own, idx, label) ==
  \E hi \in (IF m.t = "DHC" /\ st[p].auth = "awDHKey" THEN BOOLEAN ELSE {FALSE}) :
    LET r == ReceiveFrags(st[p], m, 1, FreshId(p), hi)
    IN /\ Effect(p, r, [a |-> label, p |-> p, i |-> idx, hi |-> hi], own)
       /\ delivered' = [delivered EXCEPT ![p] = IF r.plain # NoText THEN Append(@, <<r.plain, ~Unflagged(r)>>) ELSE @]
       /\ rejects' = IF m.t = "D" /\ (r.err \/ \E i \in DOMAIN r.evs : r.evs[i] = "msg:ReceivedMessageUnreadable")
                     THEN rejects + 1 ELSE rejects
       /\ UNCHANGED <<nt, accepted>>

\* FIFO delivery of the head of p's queue
Deliver(p) ==
  /\ net[p] # <<>>
  /\ DeliverMsg(p, Head(net[p]), Tail(net[p]), 0, "Deliver")
  /\ UNCHANGED <<phase, budget>>

UserSend(p) ==
  /\ phase = "free"
  /\ Len(SelectSeq(path, LAMBDA s : s.a = "Send" /\ s.p = p)) < MaxSend
  /\ Len(net[Other(p)]) < MaxFlight
  /\ LET r == Send(st[p], nt + 1)
     IN /\ Effect(p, r, [a |-> "Send", p |-> p, t |-> nt + 1], net[p])
        /\ nt' = nt + 1
        /\ accepted' = [accepted EXCEPT ![p] = IF st[p].ms = "enc" /\ ~r.err THEN Append(@, nt + 1) ELSE @]
  /\ UNCHANGED <<phase, budget, delivered, rejects>>

UserQuery(p) ==
  /\ phase = "free" /\ budget.query > 0 /\ OTREnabled(st[p])
  /\ Effect(p, Query(st[p]), [a |-> "Query", p |-> p], net[p])
  /\ budget' = [budget EXCEPT !.query = @ - 1]
  /\ UNCHANGED <<phase, nt, delivered, accepted, rejects>>

UserEnd(p) ==
  /\ phase = "free" /\ budget.end > 0
  /\ Effect(p, End(st[p]), [a |-> "End", p |-> p], net[p])
  /\ budget' = [budget EXCEPT !.end = @ - 1]
  /\ UNCHANGED <<phase, nt, delivered, accepted, rejects>>

UserTick(p) ==
  /\ phase = "free" /\ budget.tick > 0
  /\ ~(st[p].hb /\ ~st[p].rstep /\ ~st[p].renc)
  /\ Effect(p, Tick(st[p]), [a |-> "Tick", p |-> p], net[p])
  /\ budget' = [budget EXCEPT !.tick = @ - 1]
  /\ UNCHANGED <<phase, nt, delivered, accepted, rejects>>

UserExtra(p) ==
  /\ phase = "free" /\ budget.extra > 0 /\ st[p].ms = "enc"
  /\ Len(net[Other(p)]) < MaxFlight
  /\ Effect(p, ExtraKey(st[p]), [a |-> "ExtraKey", p |-> p], net[p])
  /\ budget' = [budget EXCEPT !.extra = @ - 1]
  /\ UNCHANGED <<phase, nt, delivered, accepted, rejects>>

\* deterministic handshake used as set-up: A's user sends the query, then
\* deliveries alternate until the network is quiet
SetupStep ==
  /\ phase = "setup"
  /\ IF path = <<>> THEN
       /\ Effect("A", Query(st["A"]), [a |-> "Query", p |-> "A"], net["A"])
       /\ UNCHANGED <<phase, budget, nt, delivered, accepted, rejects>>
     ELSE IF net["B"] # <<>> THEN Deliver("B")
     ELSE IF net["A"] # <<>> THEN Deliver("A")
     ELSE /\ phase' = "free"
          /\ UNCHANGED <<st, net, nx, nt, budget, delivered, accepted, rejects, evlog, path>>

\* "bag" network: the attacker picks any message in flight, may duplicate or drop
DeliverAny(p) ==
  /\ NetMode = "bag" /\ phase = "free"
  /\ \E i \in DOMAIN net[p] :
       DeliverMsg(p, net[p][i], [j \in 1..(Len(net[p]) - 1) |-> IF j < i THEN net[p][j] ELSE net[p][j + 1]], i - 1, "DeliverAt")
  /\ UNCHANGED <<phase, budget>>

Duplicate(p) ==
  /\ NetMode = "bag" /\ phase = "free" /\ budget.dup > 0
  /\ \E i \in DOMAIN net[p] :
       DeliverMsg(p, net[p][i], net[p], i - 1, "DupAt")
  /\ budget' = [budget EXCEPT !.dup = @ - 1]
  /\ UNCHANGED phase

Drop(p) ==
  /\ NetMode = "bag" /\ phase = "free" /\ budget.drop > 0
  /\ net[p] # <<>>
  /\ net' = [net EXCEPT ![p] = Tail(@)]
  /\ budget' = [budget EXCEPT !.drop = @ - 1]
  /\ path' = Append(path, [a |-> "Drop", p |-> p])
  /\ UNCHANGED <<st, nx, nt, phase, delivered, accepted, rejects, evlog>>

Next ==
  \/ SetupStep
  \/ \E p \in Parties :
       \/ (phase = "free" /\ NetMode = "fifo" /\ Deliver(p))
       \/ UserSend(p) \/ UserQuery(p) \/ UserEnd(p) \/ UserTick(p) \/ UserExtra(p)
       \/ DeliverAny(p) \/ Duplicate(p) \/ Drop(p)

Spec == Init /\ [][Next]_vars

\* Liveness needs fair deliveries only (users may stop at any time)
FairSpec == Spec /\ WF_vars(\E p \in Parties : Deliver(p)) /\ WF_vars(SetupStep)

\* schedule export: one line per generated transition
Emit == Export => PrintT(<<"SCHED", ToJson(path')>>)

\* ------------------------------------------------------------------------
\* Properties
\* ------------------------------------------------------------------------
IsPrefixSeq(a, b) == Len(a) <= Len(b) /\ \A i \in DOMAIN a : a[i] = b[i]
Texts(sq) == [i \in DOMAIN sq |-> sq[i][1]]
Quiet == \A p \in Parties : net[p] = <<>>

\* C04 (fifo, no End/Query after set-up): nothing genuine is rejected, delivery
\* is a prefix of what the peer's Send accepted, complete at quiescence
NoHonestReject == rejects = 0
PrefixOrder == \A p \in Parties : IsPrefixSeq(Texts(delivered[p]), accepted[Other(p)])
CompleteAtQuiescence == Quiet => \A p \in Parties : Texts(delivered[p]) = accepted[Other(p)]

\* C05: no text delivered twice (any network)
AtMostOnce == \A p \in Parties : \A i, j \in DOMAIN delivered[p] :
                 (i # j /\ ~delivered[p][i][2] /\ ~delivered[p][j][2]) => delivered[p][i][1] # delivered[p][j][1]

\* C02 (honest parties only here): what is delivered unflagged was accepted by the peer's Send
DeliveredAuthentic == \A p \in Parties : \A i \in DOMAIN delivered[p] :
                 ~delivered[p][i][2] /\ st[p].ms # "plain" =>
                     \E j \in DOMAIN accepted[Other(p)] : accepted[Other(p)][j] = delivered[p][i][1]

\* C09: a disclosed MAC key belongs to a retired key pair of the discloser
LiveRecvKeys(s) ==
  {<<y, x>> : x \in ({s.cur, s.prev} \ {0}), y \in ({s.tcur, s.tprev} \ {0})}
DisclosedRetired ==
  \A p \in Parties : st[p].ms = "enc" => st[p].pend \cap LiveRecvKeys(st[p]) = {}
WireDisclosedRetired ==
  \A p \in Parties : \A i \in DOMAIN net[p] :
     LET m == net[p][i] IN (m.t = "D" /\ st[Other(p)].ms = "enc") => m.discl \cap LiveRecvKeys(st[Other(p)]) = {}

\* C19: retained state is bounded
SizeBound ==
  \A p \in Parties : st[p].ms = "enc" =>
     /\ Cardinality(st[p].ctrs) <= 4
     /\ Cardinality(st[p].macs) <= 4
     /\ Len(st[p].rsq) <= 1

\* C18: encrypted exactly between GoneSecure and GoneInsecure
LastSec(p) == IF evlog[p] = <<>> THEN "none" ELSE evlog[p][Len(evlog[p])]
EncryptedExactly == \A p \in Parties : (st[p].ms = "enc") <=> (LastSec(p) \in {"sec:GoneSecure", "sec:StillSecure"})

\* C07: the key exchange completes
BothEncrypted == /\ st["A"].ms = "enc" /\ st["B"].ms = "enc"
                 /\ st["A"].sess = st["B"].sess /\ st["A"].sess # <<0, 0>>
                 /\ st["A"].peer = "B" /\ st["B"].peer = "A"
                 /\ st["A"].rev # st["B"].rev
Completes == <>[]BothEncrypted
Started == \E p \in Parties : st[p].auth \notin {"nil", "none"} \/ st[p].ms = "enc"
QuietImpliesDone == (Quiet /\ Started /\ phase = "free") => BothEncrypted

=============================================================================
