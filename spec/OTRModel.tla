------------------------------ MODULE OTRModel ------------------------------
(***************************************************************************)
(* Two OTR endpoints (module OTR), the users driving them and the network  *)
(* between them.  TLC explores every interleaving of user calls and        *)
(* deliveries within the bounds given as constants, checks the properties  *)
(* below, and exports the schedule reaching every transition (history      *)
(* variable `path`, hidden from the fingerprint by VIEW) so that the real  *)
(* implementation can be driven through the same behaviours.               *)
(*                                                                         *)
(* Network modes: "fifo" (reliable, ordered), "bag" (an attacker may       *)
(* deliver any message in flight, duplicate and drop).                     *)
(***************************************************************************)
EXTENDS OTR, Json

CONSTANTS
  Pol,          \* party -> policy record
  Ver0,         \* party -> initial version (0 = negotiate)
  Prelude,      \* sequence of steps executed first, deterministically (set-up / start pattern)
  PreludeDrain, \* TRUE: after the prelude deliver alternately until the network is quiet
  MaxSend,      \* user texts per party
  MaxFlight,    \* at most this many messages in flight per direction when a user sends
  MaxTick, MaxEnd, MaxQuery, MaxExtra,  \* budgets (total over both parties)
  NetMode,      \* "fifo" | "bag"
  MaxDup,       \* "bag": budget of duplicate deliveries
  MaxDrop,      \* "bag": budget of drops
  MaxAtk,       \* budget of active-attacker steps (tampered copies, messages forged by E)
  MaxSMPStart, MaxSMPAnswer, MaxSMPAbort, \* budgets of SMP user calls
  Secrets,      \* set of secret ids users may enter
  AllPol,       \* TRUE: both parties' policies range over all 64 policy sets (Pol is ignored)
  MaxOffer,     \* budget of attacker-made offers (queries / whitespace tags with arbitrary version lists)
  Export        \* TRUE: print the schedule of every transition

Parties == {"A", "B"}
Base(p) == IF p = "A" THEN 100 ELSE 200

VARIABLES
  st,        \* party -> endpoint state
  net,       \* party -> sequence of messages addressed to it
  nx,        \* party -> number of DH secrets drawn
  nt,        \* texts handed to Send so far
  nsend,     \* party -> user sends after the prelude
  pc,        \* position in the prelude
  order,     \* set of <<x, y>>: the hash of commitment x compares higher than that of y (decided on first use)
  used,      \* party -> receiving MAC keys that verified an accepted message
  disclosedEver, \* party -> MAC keys disclosed in emitted messages
  leaks,     \* number of user texts emitted in clear although encryption was due
  atkplain,  \* texts an attacker-made data message without a valid MAC got delivered
  ksess,     \* party -> session id pair at the moment the party last went (or stayed) secure
  nrun,      \* SMP runs started so far
  smplog,    \* party -> sequence of <<event, own term, term in the message>> for SMP outcomes
  txlog,     \* <<text, resent>> of every data message emitted that carries a user text
  phase,     \* "setup" | "free"
  budget,    \* record of remaining budgets
  delivered, \* party -> sequence of <<text, flaggedUnencrypted>> returned by Receive
  accepted,  \* party -> sequence of text ids accepted by Send while encrypted
  rejects,   \* number of data messages rejected by a receiver
  evlog,     \* party -> sequence of security events
  path       \* schedule (history, not part of the fingerprint)

vars == <<st, net, nx, nt, nsend, pc, order, phase, budget, delivered, accepted, rejects, evlog, used, disclosedEver, leaks, txlog, nrun, smplog, ksess, atkplain, path>>
view == <<st, net, nx, nt, nsend, pc, order, phase, budget, delivered, accepted, rejects, evlog, used, disclosedEver, leaks, txlog, nrun, smplog, ksess, atkplain>>

FreshId(p) == Base(p) + nx[p] + 1
Uses(s, id) == s.ax = id \/ s.cur = id

SecEvents(evs) == SelectSeq(evs, LAMBDA e : e \in {"sec:GoneSecure", "sec:GoneInsecure", "sec:StillSecure"})

AllPolicies == [v2 : BOOLEAN, v3 : BOOLEAN, req : BOOLEAN, wstag : BOOLEAN, wsstart : BOOLEAN, errstart : BOOLEAN]
OfferSets == SUBSET {1, 2, 3, 4}
SetToSeq(S) == (IF 1 \in S THEN <<1>> ELSE <<>>) \o (IF 2 \in S THEN <<2>> ELSE <<>>) \o (IF 3 \in S THEN <<3>> ELSE <<>>) \o (IF 4 \in S THEN <<4>> ELSE <<>>)

Init ==
  /\ IF AllPol THEN \E pa, pb \in AllPolicies : st = [p \in Parties |-> InitParty(p, IF p = "A" THEN pa ELSE pb, Ver0[p])]
     ELSE st = [p \in Parties |-> InitParty(p, Pol[p], Ver0[p])]
  /\ net = [p \in Parties |-> <<>>]
  /\ nx = [p \in Parties |-> 0]
  /\ nt = 0
  /\ nsend = [p \in Parties |-> 0]
  /\ pc = 1
  /\ order = {}
  /\ used = [p \in Parties |-> {}]
  /\ disclosedEver = [p \in Parties |-> {}]
  /\ leaks = 0
  /\ txlog = <<>>
  /\ ksess = [p \in Parties |-> <<0, 0>>]
  /\ atkplain = 0
  /\ nrun = 0
  /\ smplog = [p \in Parties |-> <<>>]
  /\ phase = IF Prelude # <<>> \/ PreludeDrain THEN "setup" ELSE "free"
  /\ budget = [tick |-> MaxTick, end |-> MaxEnd, query |-> MaxQuery, extra |-> MaxExtra, dup |-> MaxDup, drop |-> MaxDrop, offer |-> MaxOffer, atk |-> MaxAtk,
               smpstart |-> MaxSMPStart, smpanswer |-> MaxSMPAnswer, smpabort |-> MaxSMPAbort]
  /\ delivered = [p \in Parties |-> <<>>]
  /\ accepted = [p \in Parties |-> <<>>]
  /\ rejects = 0
  /\ evlog = [p \in Parties |-> <<>>]
  /\ path = <<>>

\* common effect of an API call by p with result r
Effect(p, r, step, own) ==
  /\ st' = [st EXCEPT ![p] = r.s]
  /\ net' = [net EXCEPT ![p] = own, ![Other(p)] = @ \o r.out]
  /\ nx' = [nx EXCEPT ![p] = IF Uses(r.s, FreshId(p)) /\ ~Uses(st[p], FreshId(p)) THEN @ + 1 ELSE @]
  /\ evlog' = [evlog EXCEPT ![p] = @ \o SecEvents(r.evs)]
  /\ ksess' = [ksess EXCEPT ![p] = IF \E i \in DOMAIN r.evs : r.evs[i] \in {"sec:GoneSecure", "sec:StillSecure"} THEN r.s.sess ELSE @]
  /\ disclosedEver' = [disclosedEver EXCEPT ![p] = @ \cup UNION {r.out[i].discl : i \in {j \in DOMAIN r.out : r.out[j].t = "D"}}]
  /\ leaks' = leaks + Cardinality({i \in DOMAIN r.out : r.out[i].t = "P" /\ r.out[i].text # NoText /\
                       OTREnabled(st[p]) /\ (step.a # "Send" \/ st[p].ms \in {"enc", "fin"} \/ st[p].pol.req)})
  /\ txlog' = txlog \o [i \in 1..Len(SelectSeq(r.out, LAMBDA m : m.t = "D" /\ m.text # NoText)) |->
                        LET m == SelectSeq(r.out, LAMBDA mm : mm.t = "D" /\ mm.text # NoText)[i] IN <<m.text, m.rs>>]
  /\ path' = IF Export THEN Append(path, step) ELSE path

Unflagged(r) == ~\E i \in DOMAIN r.evs : r.evs[i] = "msg:ReceivedMessageUnencrypted"

DeliverMsg(p, m, own, idx, label) ==
  \E hi \in (IF m.t = "DHC" /\ st[p].auth = "awDHKey"
              THEN (IF <<st[p].ax, m.hash>> \in order THEN {TRUE}
                    ELSE IF <<m.hash, st[p].ax>> \in order \/ m.hash = st[p].ax THEN {FALSE} ELSE BOOLEAN)
              ELSE {FALSE}) :
    LET r == ReceiveFrags(st[p], m, 1, FreshId(p), hi)
    IN /\ Effect(p, r, [a |-> label, p |-> p, i |-> idx, hi |-> hi], own)
       /\ order' = IF m.t = "DHC" /\ st[p].auth = "awDHKey" /\ m.hash # st[p].ax
                   THEN order \cup {IF hi THEN <<st[p].ax, m.hash>> ELSE <<m.hash, st[p].ax>>} ELSE order
       /\ used' = [used EXCEPT ![p] = IF m.t = "D" /\ st[p].ms = "enc" /\ ~r.err /\ m.mac[1] # 0
                                         /\ <<m.rkid, m.skid, m.mac[1], m.mac[2]>> \in r.s.macs \cup st[p].macs
                                         /\ (r.plain # NoText \/ \E i \in DOMAIN r.evs : r.evs[i] = "msg:LogHeartbeatReceived")
                                      THEN @ \cup {m.mac} ELSE @]
       /\ delivered' = [delivered EXCEPT ![p] = IF r.plain # NoText THEN Append(@, <<r.plain, ~Unflagged(r)>>) ELSE @]
       /\ rejects' = IF m.t = "D" /\ (r.err \/ \E i \in DOMAIN r.evs : r.evs[i] = "msg:ReceivedMessageUnreadable")
                     THEN rejects + 1 ELSE rejects
       /\ smplog' = [smplog EXCEPT ![p] = @ \o [i \in 1..Len(SelectSeq(r.evs, LAMBDA e : e \in {"smp:Success", "smp:Failure", "smp:Cheated"})) |->
                                  <<SelectSeq(r.evs, LAMBDA e : e \in {"smp:Success", "smp:Failure", "smp:Cheated"})[i], st[p].smpsec,
                                    IF m.t = "D" THEN m.smp.sec ELSE <<>>, IF m.t = "D" THEN m.smp.run = st[p].smprun ELSE FALSE>>]]
       /\ UNCHANGED <<nt, nsend, accepted, nrun, atkplain>>

\* FIFO delivery of the head of p's queue
Deliver(p) ==
  /\ net[p] # <<>>
  /\ DeliverMsg(p, Head(net[p]), Tail(net[p]), 0, "Deliver")
  /\ UNCHANGED <<phase, budget>>

UserSend(p) ==
  /\ phase = "free"
  /\ nsend[p] < MaxSend
  /\ Len(net[Other(p)]) < MaxFlight
  /\ LET r == Send(st[p], nt + 1)
     IN /\ Effect(p, r, [a |-> "Send", p |-> p, t |-> nt + 1], net[p])
        /\ nt' = nt + 1
        /\ nsend' = [nsend EXCEPT ![p] = @ + 1]
        /\ accepted' = [accepted EXCEPT ![p] = IF st[p].ms = "enc" /\ ~r.err THEN Append(@, nt + 1) ELSE @]
  /\ UNCHANGED <<phase, pc, budget, delivered, rejects, used, nrun, smplog, order, atkplain>>

UserQuery(p) ==
  /\ phase = "free" /\ budget.query > 0 /\ OTREnabled(st[p])
  /\ Effect(p, Query(st[p]), [a |-> "Query", p |-> p], net[p])
  /\ budget' = [budget EXCEPT !.query = @ - 1]
  /\ UNCHANGED <<phase, pc, nt, nsend, delivered, accepted, rejects, used, nrun, smplog, order, atkplain>>

UserEnd(p) ==
  /\ phase = "free" /\ budget.end > 0
  /\ Effect(p, End(st[p]), [a |-> "End", p |-> p], net[p])
  /\ budget' = [budget EXCEPT !.end = @ - 1]
  /\ UNCHANGED <<phase, pc, nt, nsend, delivered, accepted, rejects, used, nrun, smplog, order, atkplain>>

UserTick(p) ==
  /\ phase = "free" /\ budget.tick > 0
  /\ ~(st[p].hb /\ ~st[p].rstep /\ ~st[p].renc)
  /\ Effect(p, Tick(st[p]), [a |-> "Tick", p |-> p], net[p])
  /\ budget' = [budget EXCEPT !.tick = @ - 1]
  /\ UNCHANGED <<phase, pc, nt, nsend, delivered, accepted, rejects, used, nrun, smplog, order, atkplain>>

UserExtra(p) ==
  /\ phase = "free" /\ budget.extra > 0 /\ st[p].ms = "enc"
  /\ Len(net[Other(p)]) < MaxFlight
  /\ Effect(p, ExtraKey(st[p]), [a |-> "ExtraKey", p |-> p], net[p])
  /\ budget' = [budget EXCEPT !.extra = @ - 1]
  /\ UNCHANGED <<phase, pc, nt, nsend, delivered, accepted, rejects, used, nrun, smplog, order, atkplain>>

\* The prelude: a fixed sequence of user steps (the start pattern of a scenario),
\* optionally followed by alternating deliveries until the network is quiet.
PreludeStep ==
  /\ phase = "setup"
  /\ IF pc <= Len(Prelude) THEN
       LET s == Prelude[pc]
           p == s.p
       IN /\ pc' = pc + 1
          /\ CASE s.a = "Query" -> /\ Effect(p, Query(st[p]), [a |-> "Query", p |-> p], net[p])
                                     /\ UNCHANGED <<phase, budget, nt, nsend, delivered, accepted, rejects, used, nrun, smplog, order, atkplain>>
               [] s.a = "Send" -> LET r == Send(st[p], nt + 1)
                                  IN /\ Effect(p, r, [a |-> "Send", p |-> p, t |-> nt + 1], net[p])
                                     /\ nt' = nt + 1
                                     /\ accepted' = [accepted EXCEPT ![p] = IF st[p].ms = "enc" /\ ~r.err THEN Append(@, nt + 1) ELSE @]
                                     /\ UNCHANGED <<phase, budget, nsend, delivered, rejects, used, nrun, smplog, order, atkplain>>
               [] s.a = "Tick" -> /\ Effect(p, Tick(st[p]), [a |-> "Tick", p |-> p], net[p])
                                  /\ UNCHANGED <<phase, budget, nt, nsend, delivered, accepted, rejects, used, nrun, smplog, order, atkplain>>
               [] s.a = "End" -> /\ Effect(p, End(st[p]), [a |-> "End", p |-> p], net[p])
                                 /\ UNCHANGED <<phase, budget, nt, nsend, delivered, accepted, rejects, used, nrun, smplog, order, atkplain>>
               [] s.a = "Err" -> \* the peer's client sends an OTR error message to p
                                 /\ net' = [net EXCEPT ![p] = Append(@, ErrorMsg)]
                                 /\ path' = IF Export THEN Append(path, [a |-> "Err", p |-> p]) ELSE path
                                 /\ UNCHANGED <<st, nx, nt, nsend, phase, budget, delivered, accepted, rejects, evlog, used, disclosedEver, leaks, txlog, nrun, smplog, ksess, order, atkplain>>
               [] s.a = "Deliver" -> /\ net[p] # <<>>
                                     /\ DeliverMsg(p, Head(net[p]), Tail(net[p]), 0, "Deliver")
                                     /\ UNCHANGED <<phase, budget>>
     ELSE IF PreludeDrain /\ net["B"] # <<>> THEN Deliver("B") /\ pc' = pc
     ELSE IF PreludeDrain /\ net["A"] # <<>> THEN Deliver("A") /\ pc' = pc
     ELSE /\ phase' = "free"
          /\ UNCHANGED <<st, net, nx, nt, nsend, pc, budget, delivered, accepted, rejects, evlog, used, disclosedEver, leaks, txlog, nrun, smplog, ksess, path, order, atkplain>>

\* "bag" network: the attacker picks any message in flight, may duplicate or drop
DeliverAny(p) ==
  /\ NetMode = "bag" /\ phase = "free"
  /\ \E i \in DOMAIN net[p] :
       DeliverMsg(p, net[p][i], [j \in 1..(Len(net[p]) - 1) |-> IF j < i THEN net[p][j] ELSE net[p][j + 1]], i - 1, "DeliverAt")
  /\ UNCHANGED <<phase, pc, budget>>

Duplicate(p) ==
  /\ NetMode = "bag" /\ phase = "free" /\ budget.dup > 0
  /\ \E i \in DOMAIN net[p] :
       DeliverMsg(p, net[p][i], net[p], i - 1, "DupAt")
  /\ budget' = [budget EXCEPT !.dup = @ - 1]
  /\ UNCHANGED <<phase, pc>>

Drop(p) ==
  /\ NetMode = "bag" /\ phase = "free" /\ budget.drop > 0
  /\ net[p] # <<>>
  /\ net' = [net EXCEPT ![p] = Tail(@)]
  /\ budget' = [budget EXCEPT !.drop = @ - 1]
  /\ path' = IF Export THEN Append(path, [a |-> "Drop", p |-> p]) ELSE path
  /\ UNCHANGED <<st, nx, nt, nsend, pc, phase, delivered, accepted, rejects, evlog, used, disclosedEver, leaks, txlog, nrun, smplog, ksess, order, atkplain>>

FreeDeliver(p) == phase = "free" /\ NetMode = "fifo" /\ Deliver(p) /\ pc' = pc

UserSMPStart(p) ==
  /\ phase = "free" /\ budget.smpstart > 0 /\ st[p].ms = "enc" /\ Len(net[Other(p)]) < MaxFlight
  /\ \E sec \in Secrets : \E q \in BOOLEAN :
        /\ Effect(p, SMPStart(st[p], sec, q, nrun + 1), [a |-> "SMPStart", p |-> p, s |-> sec, q |-> q], net[p])
  /\ nrun' = nrun + 1
  /\ budget' = [budget EXCEPT !.smpstart = @ - 1]
  /\ UNCHANGED <<phase, pc, nt, nsend, delivered, accepted, rejects, used, smplog, order, atkplain>>

UserSMPAnswer(p) ==
  /\ phase = "free" /\ budget.smpanswer > 0 /\ Len(net[Other(p)]) < MaxFlight
  /\ \E sec \in Secrets :
        Effect(p, SMPAnswer(st[p], sec), [a |-> "SMPAnswer", p |-> p, s |-> sec], net[p])
  /\ budget' = [budget EXCEPT !.smpanswer = @ - 1]
  /\ UNCHANGED <<phase, pc, nt, nsend, delivered, accepted, rejects, used, nrun, smplog, order, atkplain>>

UserSMPAbort(p) ==
  /\ phase = "free" /\ budget.smpabort > 0 /\ st[p].ms = "enc" /\ Len(net[Other(p)]) < MaxFlight
  /\ Effect(p, SMPAbort(st[p]), [a |-> "SMPAbort", p |-> p], net[p])
  /\ budget' = [budget EXCEPT !.smpabort = @ - 1]
  /\ UNCHANGED <<phase, pc, nt, nsend, delivered, accepted, rejects, used, nrun, smplog, order, atkplain>>

\* ------------------------------------------------------------------------
\* The active attacker E: own long-term key, own DH exponent (id 301), sees everything in flight.
\* It can deliver a copy of a message in flight with one field class damaged, or a message it builds
\* itself: a DH-Commit / DH-Key with its own or a degenerate value, a Reveal-Signature / Signature
\* message protected by the keys it shares with the victim (it ran the DH part itself) that carries
\* its own key (a genuine exchange with E), or claims the peer's key (signature cannot verify).
\* ------------------------------------------------------------------------
EId == 301
\* each element: k = the name under which the driver concretises it, m = the abstract message
Tampered(m) ==
  LET T(k, mm) == [k |-> k, m |-> mm] IN
  (CASE m.t = "DHC" -> {T("enc", [m EXCEPT !.enc = -1]), T("hash", [m EXCEPT !.hash = -1])}
    [] m.t = "DHK" -> {T("gy-deg", [m EXCEPT !.gy = -2]), T("gy-other", [m EXCEPT !.gy = -1001])}
    [] m.t = "RS"  -> {T("r", [m EXCEPT !.r = -1]), T("xs-ok", [m EXCEPT !.xs.ok = FALSE]), T("xs-sig", [m EXCEPT !.xs.sig = FALSE])}
    [] m.t = "SIG" -> {T("xs-ok", [m EXCEPT !.xs.ok = FALSE]), T("xs-sig", [m EXCEPT !.xs.sig = FALSE])}
    [] m.t = "D"   -> {T("mac", [m EXCEPT !.mac = <<0, 0>>]), T("mac-ctr", [m EXCEPT !.mac = <<0, 0>>, !.ctr = @ + 1]),
                       T("mac-text", [m EXCEPT !.mac = <<0, 0>>, !.text = -1])}
    [] OTHER -> {})
  \cup (IF m.t \in {"DHC", "DHK", "RS", "SIG", "D"} /\ m.v = 3
        THEN {T("st-other", [m EXCEPT !.st = 3]), T("rt-other", [m EXCEPT !.rt = 3]), T("st-invalid", [m EXCEPT !.st = -1])} ELSE {})

ForgedV(p, v) ==
  LET s == st[p]
      hdr == [v |-> v, st |-> IF v = 3 THEN 3 ELSE 0, rt |-> IF v = 3 THEN s.otag ELSE 0]
      T(k, mm) == [k |-> k, m |-> mm]
  IN {T("f-dhc", [t |-> "DHC", v |-> hdr.v, st |-> hdr.st, rt |-> hdr.rt, enc |-> EId, hash |-> EId]),
      T("f-dhc-deg", [t |-> "DHC", v |-> hdr.v, st |-> hdr.st, rt |-> hdr.rt, enc |-> -2, hash |-> -2]),
      T("f-dhk", [t |-> "DHK", v |-> hdr.v, st |-> hdr.st, rt |-> hdr.rt, gy |-> EId])}
     \cup {T("f-rs-" \o who, [t |-> "RS", v |-> hdr.v, st |-> hdr.st, rt |-> hdr.rt, r |-> EId,
            xs |-> [ok |-> TRUE, kind |-> "R", s1 |-> EId, s2 |-> s.ax, pub |-> who, kid |-> 1, sig |-> (who = "E")]]) : who \in {"E", Other(p)}}
     \cup {T("f-sig-" \o who, [t |-> "SIG", v |-> hdr.v, st |-> hdr.st, rt |-> hdr.rt,
            xs |-> [ok |-> TRUE, kind |-> "S", s1 |-> EId, s2 |-> s.ax, pub |-> who, kid |-> 1, sig |-> (who = "E")]]) : who \in {"E", Other(p)}}

\* E speaks the version the conversation is bound to, or either version while none is decided
Forged(p) == UNION {ForgedV(p, v) : v \in (IF st[p].ver = 0 THEN {2, 3} ELSE {st[p].ver})}

\* what E is told is not delivered to the genuine peer
AttackerDeliver(p) ==
  /\ phase = "free" /\ budget.atk > 0
  /\ \E c \in (UNION {{[k |-> x.k, m |-> x.m, i |-> i] : x \in Tampered(net[p][i])} : i \in DOMAIN net[p]})
                  \cup {[k |-> x.k, m |-> x.m, i |-> 0] : x \in Forged(p)} :
       \E hi \in (IF c.m.t = "DHC" /\ st[p].auth = "awDHKey" THEN BOOLEAN ELSE {FALSE}) :
        LET m == c.m
            r == ReceiveFrags(st[p], m, 1, FreshId(p), hi)
        IN /\ st' = [st EXCEPT ![p] = r.s]
           /\ nx' = [nx EXCEPT ![p] = IF Uses(r.s, FreshId(p)) /\ ~Uses(st[p], FreshId(p)) THEN @ + 1 ELSE @]
           /\ evlog' = [evlog EXCEPT ![p] = @ \o SecEvents(r.evs)]
           /\ ksess' = [ksess EXCEPT ![p] = IF \E i \in DOMAIN r.evs : r.evs[i] \in {"sec:GoneSecure", "sec:StillSecure"} THEN r.s.sess ELSE @]
           /\ delivered' = [delivered EXCEPT ![p] = IF r.plain # NoText THEN Append(@, <<r.plain, ~Unflagged(r)>>) ELSE @]
           /\ atkplain' = atkplain + (IF r.plain # NoText /\ Unflagged(r) /\ m.t = "D" /\ m.mac = <<0, 0>> THEN 1 ELSE 0)
           /\ path' = IF Export THEN Append(path, [a |-> "Attack", p |-> p, f |-> c.k, i |-> c.i, q |-> hi, z |-> c.m.v]) ELSE path
  /\ budget' = [budget EXCEPT !.atk = @ - 1]
  /\ UNCHANGED <<net, nt, nsend, pc, order, phase, accepted, rejects, used, disclosedEver, leaks, txlog, nrun, smplog>>

\* an offer with an arbitrary version list, made by anybody (offers are not authenticated)
InjectOffer(p) ==
  /\ phase = "free" /\ budget.offer > 0
  /\ \E vs \in OfferSets : \E tagged \in BOOLEAN :
       /\ (tagged => vs \subseteq {2, 3})
       /\ net' = [net EXCEPT ![p] = Append(@, IF tagged THEN [t |-> "P", text |-> 0, tag |-> SetToSeq(vs), tagged |-> TRUE]
                                               ELSE [t |-> "Q", vs |-> SetToSeq(vs)])]
       /\ path' = IF Export THEN Append(path, [a |-> "Offer", p |-> p, vs |-> SetToSeq(vs), tagged |-> tagged]) ELSE path
  /\ budget' = [budget EXCEPT !.offer = @ - 1]
  /\ UNCHANGED <<st, nx, nt, nsend, pc, phase, delivered, accepted, rejects, evlog, used, disclosedEver, leaks, txlog, nrun, smplog, ksess, order, atkplain>>

Step ==
  \/ PreludeStep
  \/ \E p \in Parties : InjectOffer(p)
  \/ \E p \in Parties : AttackerDeliver(p)
  \/ \E p \in Parties :
       \/ FreeDeliver(p)
       \/ UserSend(p) \/ UserQuery(p) \/ UserEnd(p) \/ UserTick(p) \/ UserExtra(p)
       \/ UserSMPStart(p) \/ UserSMPAnswer(p) \/ UserSMPAbort(p)
       \/ DeliverAny(p) \/ Duplicate(p) \/ Drop(p)

Next == Step

Spec == Init /\ [][Next]_vars

\* Liveness needs fair deliveries only (users may stop at any time)
FairSpec == Spec /\ WF_vars(\E p \in Parties : FreeDeliver(p)) /\ WF_vars(PreludeStep)

\* schedule export: one line per generated transition
Emit == Export => PrintT(<<"SCHED", ToJson(path')>>)

\* ------------------------------------------------------------------------
\* Properties
\* ------------------------------------------------------------------------
IsPrefixSeq(a, b) == Len(a) <= Len(b) /\ \A i \in DOMAIN a : a[i] = b[i]
Texts(sq) == [i \in DOMAIN sq |-> sq[i][1]]
Quiet == \A p \in Parties : net[p] = <<>>

\* C04 (fifo, no End/Query after set-up): nothing genuine is rejected, delivery
\* is a prefix of what the peer's Send accepted, complete at quiescence
NoHonestReject == rejects = 0
PrefixOrder == \A p \in Parties : IsPrefixSeq(Texts(delivered[p]), accepted[Other(p)])
CompleteAtQuiescence == Quiet => \A p \in Parties : Texts(delivered[p]) = accepted[Other(p)]

\* C05: no text delivered twice (any network)
AtMostOnce == \A p \in Parties : \A i, j \in DOMAIN delivered[p] :
                 (i # j /\ ~delivered[p][i][2] /\ ~delivered[p][j][2]) => delivered[p][i][1] # delivered[p][j][1]

\* C02 (honest parties only here): what is delivered unflagged was accepted by the peer's Send
DeliveredAuthentic == \A p \in Parties : \A i \in DOMAIN delivered[p] :
                 ~delivered[p][i][2] /\ st[p].ms # "plain" =>
                     \E j \in DOMAIN accepted[Other(p)] : accepted[Other(p)][j] = delivered[p][i][1]

\* C09: a disclosed MAC key belongs to a retired key pair of the discloser
LiveRecvKeys(s) ==
  {<<y, x>> : x \in ({s.cur, s.prev} \ {0}), y \in ({s.tcur, s.tprev} \ {0})}
DisclosedRetired ==
  \A p \in Parties : st[p].ms = "enc" => st[p].pend \cap LiveRecvKeys(st[p]) = {}
WireDisclosedRetired ==
  \A p \in Parties : \A i \in DOMAIN net[p] :
     LET m == net[p][i] IN (m.t = "D" /\ st[Other(p)].ms = "enc") => m.discl \cap LiveRecvKeys(st[Other(p)]) = {}

\* C09, second half: a receiving MAC key that verified a message is live, pending or was disclosed
UsedThenDisclosed ==
  \A p \in Parties : st[p].ms = "enc" =>
     \A k \in used[p] : k \in LiveRecvKeys(st[p]) \/ k \in st[p].pend \/ k \in disclosedEver[p]
                          \/ \E e \in st[p].macs : <<e[3], e[4]>> = k

\* C19: retained state is bounded
SizeBound ==
  \A p \in Parties : st[p].ms = "enc" =>
     /\ Cardinality(st[p].ctrs) <= 4
     /\ Cardinality(st[p].macs) <= 4
     /\ Len(st[p].rsq) <= 1

\* C19/C05 for every history: OTR.tla, projected on the key ids and the two tables indexed by key-id pairs, refines
\* Ratchet.tla, whose bound on those tables is an inductive invariant proved by Apalache for unbounded key ids
RT == INSTANCE Ratchet WITH r <- [oid |-> 0, tid |-> 0, ctrs |-> {}, macs |-> {}]
RProj(s) == [oid |-> s.oid, tid |-> s.tid, ctrs |-> {<<c[1], c[2]>> : c \in s.ctrs}, macs |-> {<<k[1], k[2]>> : k \in s.macs}]
RatchetRefines == [][\A p \in Parties : RT!RStep(RProj(st[p]), RProj(st'[p]))]_vars

\* C18: encrypted exactly between GoneSecure and GoneInsecure
LastSec(p) == IF evlog[p] = <<>> THEN "none" ELSE evlog[p][Len(evlog[p])]
EncryptedExactly == \A p \in Parties : (st[p].ms = "enc") <=> (LastSec(p) \in {"sec:GoneSecure", "sec:StillSecure"})

\* C03: no user text in clear when encryption is due
NoLeak == leaks = 0
\* C18: every text is transmitted at most once, plus at most one resend
TransmitOnce == \A i, j \in DOMAIN txlog : i # j => txlog[i] # txlog[j]

\* reachability sanity (expected to be VIOLATED): E can complete an exchange as itself
EveNeverPeer == \A p \in Parties : ~(st[p].ms = "enc" /\ st[p].peer = "E")

\* C02 with the active attacker: nothing it makes without the session's MAC key is delivered unflagged
NoForgedPlain == atkplain = 0

\* C01: an encrypted conversation reports the party that signed this very exchange, and
\* its session secret is shared with that party's in-range DH value
OwnerOf(id) == IF id > 100 /\ id < 200 THEN "A" ELSE IF id > 200 /\ id < 300 THEN "B" ELSE IF id > 300 /\ id < 400 THEN "E" ELSE "?"
AuthInv ==
  \A p \in Parties : st[p].ms = "enc" =>
     /\ st[p].peer \in {"A", "B", "E"}
     /\ st[p].sess[1] > 0 /\ st[p].sess[2] > 0
     /\ {OwnerOf(st[p].sess[1]), OwnerOf(st[p].sess[2])} = {p, st[p].peer}
     /\ st[p].tcur > 0 /\ OwnerOf(st[p].tcur) = st[p].peer
\* the session id reported while encrypted is the one of the exchange that made the conversation encrypted
SessStable == \A p \in Parties : st[p].ms = "enc" => st[p].sess = ksess[p]
AgreeInv ==
  (st["A"].ms = "enc" /\ st["B"].ms = "enc" /\ st["A"].sess = st["B"].sess) =>
     /\ st["A"].peer = "B" /\ st["B"].peer = "A"
     /\ st["A"].rev # st["B"].rev

\* C08: at most the current and the previous DH key and the exchange's own exponent exist; nothing at
\* rest; sent text only while it may be (re)transmitted
NoSecretsAtRest == \A p \in Parties : (st[p].ms # "enc" /\ st[p].auth \in {"nil", "none"}) => (st[p].cur = 0 /\ st[p].prev = 0 /\ st[p].ax = 0)
TextRetention == \A p \in Parties : /\ (st[p].ms = "enc" => Len(st[p].rsq) <= 1)
                                  /\ (st[p].ms = "fin" => st[p].rsq = <<>>)
                                  /\ (st[p].ms = "plain" /\ ~st[p].pol.req => st[p].rsq = <<>>)

\* C11: SMP reports success exactly when the bound secret terms are equal (same fingerprints, same
\* session, same secret) and the message belongs to the run in progress; never with unequal terms
SMPSuccessSound == \A p \in Parties : \A i \in DOMAIN smplog[p] :
   smplog[p][i][1] = "smp:Success" => (smplog[p][i][2] = smplog[p][i][3] /\ smplog[p][i][4])
SMPFailureSound == \A p \in Parties : \A i \in DOMAIN smplog[p] :
   smplog[p][i][1] = "smp:Failure" => smplog[p][i][2] # smplog[p][i][3]
\* no stuck state: a quiet network with an SMP run half done is only ever waiting for the user
SMPNotStuck == (Quiet /\ st["A"].ms = "enc" /\ st["B"].ms = "enc") =>
   \A p \in Parties : st[p].smp \in {"nil", "expect1", "waiting"} \/ st[Other(p)].smp \in {"waiting", "nil", "expect1"}

\* C15: own tag valid once set; the bound peer tag is a valid tag; bound peers never change
TagInv == \A p \in Parties : /\ st[p].otag \in {0, TagOf(p)}
                            /\ st[p].ttag >= 0
                            /\ (st[p].ttag # 0 => st[p].ttag = TagOf(Other(p)))

\* C16: a conversation only ever speaks a version its policy allows
AllowedV(s) == (IF s.pol.v2 THEN {2} ELSE {}) \cup (IF s.pol.v3 THEN {3} ELSE {})
VersionAllowed == \A p \in Parties : st[p].ver = 0 \/ st[p].ver \in AllowedV(st[p])
\* every binary message in flight was emitted by a party whose policy allows its version
NoForbiddenOnWire == \A p \in Parties : \A i \in DOMAIN net[p] :
   LET m == net[p][i] IN m.t \in {"DHC", "DHK", "RS", "SIG", "D"} => m.v \in AllowedV(st[Other(p)])
\* both committed => the common version is the highest one both allow
HighestCommon == (st["A"].ver # 0 /\ st["B"].ver # 0 /\ st["A"].ver = st["B"].ver /\ st["A"].ms = "enc" /\ st["B"].ms = "enc")
                   => st["A"].ver \in AllowedV(st["A"]) \cap AllowedV(st["B"])

\* C07: the key exchange completes
BothEncrypted == /\ st["A"].ms = "enc" /\ st["B"].ms = "enc"
                 /\ st["A"].sess = st["B"].sess /\ st["A"].sess # <<0, 0>>
                 /\ st["A"].peer = "B" /\ st["B"].peer = "A"
                 /\ st["A"].rev # st["B"].rev
Completes == <>[]BothEncrypted
Started == \E p \in Parties : st[p].auth \notin {"nil", "none"} \/ st[p].ms = "enc"
QuietImpliesDone == (Quiet /\ Started /\ phase = "free") => BothEncrypted

=============================================================================
