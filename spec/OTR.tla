------------------------------- MODULE OTR -------------------------------
(***************************************************************************)
(* Explicit specification of one OTR v2/v3 endpoint as implemented by      *)
(* coyim/otr3 (a `Conversation`), written to be bound to the code: every   *)
(* public API call is one operator that maps the endpoint's abstract state *)
(* and the call's arguments to the new state, the messages put on the      *)
(* wire, the plaintext returned, the error flag and the events raised.     *)
(*                                                                         *)
(* Secrets are named, not computed: a DH exponent is a positive integer id *)
(* (its public value has the same id), a shared secret is the unordered    *)
(* pair of ids, a data-message MAC key is the ordered pair <<x, y>> = "key *)
(* authenticating messages from the owner of x to the owner of y", an      *)
(* encrypted signature carries the pair whose AKE keys protect it, the     *)
(* name of the long-term key inside and whether the DSA signature over     *)
(* (g^s1, g^s2, key, keyid) verifies. Public value ids: 0 none, -1 unknown *)
(* but in range, -2 out of range.  Instance tags: 0 none, -1 malformed     *)
(* (<0x100), 1 = A's, 2 = B's, 3 = another valid tag.                      *)
(*                                                                         *)
(* The module is used three ways (see OTRModel.tla, OTRTrace.tla):         *)
(*   - as the next-state relation of a two-party system explored by TLC,   *)
(*   - as the oracle that validates traces recorded from the real code,    *)
(*   - as the generator of schedules that are replayed on the real code.   *)
(*                                                                         *)
(* Deviations of the code from the intended design are named constants     *)
(* with prefix KF_; with all of them FALSE this is the intended protocol.  *)
(***************************************************************************)
EXTENDS Integers, Sequences, FiniteSets, TLC

CONSTANTS
  KF_CollisionWinner,   \* D1: DH-Commit collision winner moves to awRevSig
  KF_CounterFirst,      \* D2: replay counter stored before the MAC check
  KF_TagAdoptEarly,     \* D3: peer tag adopted before it is validated
  KF_ResendHistory,     \* D11a: every message ever sent stays in the resend queue
  KF_MacPerMessage,     \* D11b (only sizes; sets hide it)
  KF_CounterGrowth,     \* D11c: counter entries created for unauthenticated ids, never pruned
  KF_StraySigFlush,     \* D12: any Reveal-Sig/Sig message flushes the resend queue
  KF_ReAKEWipesMacs,    \* D15: refresh AKE drops undisclosed MAC keys
  KF_FragKeep,          \* D5: a completed fragment stream is not forgotten
  KF_BadCommitWipes,    \* D19: an unparsable DH-Commit wipes the key exchange in progress
  KF_EarlyPeerKey,      \* D20: peer key / SSID are overwritten before the signature is verified
  KF_RejectCommits,     \* D21: a rejected binary message commits the version / binds the peer tag
  KF_AKETimerAlways,    \* D22: every AKE-type message restarts the query-ignore window
  KF_SMPCorruptSilent,  \* D24: an unparsable SMP message is dropped silently, the run stays half done
  KF_TagRestarts,       \* D26: a whitespace tag restarts a key exchange that is under way (no ignore window)
  KF_RequeryNewCommit,  \* D25: a repeated query while our DH-Commit is unanswered draws a new commitment
  KF_EarlySSID          \* D20b: the reported SSID is replaced as soon as an exchange derives its secret, not when it completes

NoText == 0

Other(p) == IF p = "A" THEN "B" ELSE "A"
TagOf(p) == IF p = "A" THEN 1 ELSE IF p = "B" THEN 2 ELSE 3
\* the long-term key an endpoint signs with: "C" is a second client instance of B's account (same
\* long-term key, its own instance tag and DH secrets), see OTRMulti.tla
KeyOf(p) == IF p = "C" THEN "B" ELSE p
\* (the field `key` of an endpoint's state is the key it signs with now: KeyOf(me), or another one after the
\* user came back with a new long-term key -- event Reset of the trace specification)

\* ------------------------------------------------------------------------
\* State of one endpoint
\* ------------------------------------------------------------------------

NoPol == [v2 |-> FALSE, v3 |-> FALSE, req |-> FALSE, wstag |-> FALSE, wsstart |-> FALSE, errstart |-> FALSE]

InitParty(me, pol, ver) ==
  [ me |-> me, key |-> KeyOf(me), pol |-> pol,
    ms |-> "plain", ver |-> ver, ws |-> 0,
    auth |-> "nil", ax |-> 0, agy |-> 0, aenc |-> 0, ahash |-> 0, akid |-> 0, atid |-> 0,
    oid |-> 0, tid |-> 0, cur |-> 0, prev |-> 0, tcur |-> 0, tprev |-> 0,
    ctrs |-> {}, macs |-> {}, pend |-> {},
    sess |-> <<0, 0>>, asess |-> <<0, 0>>, peer |-> "none", rev |-> FALSE,
    otag |-> 0, ttag |-> 0,
    smp |-> "nil", smpsec |-> <<>>, smpq |-> FALSE, smprun |-> 0,
    rsf |-> 0, rsq |-> <<>>,
    frag |-> <<0, 0>>,
    hb |-> TRUE, rstep |-> FALSE, renc |-> FALSE,
    inj |-> 0 ]

OTREnabled(s) == s.pol.v2 \/ s.pol.v3

Versions(s) == (IF s.pol.v2 THEN {2} ELSE {}) \cup (IF s.pol.v3 THEN {3} ELSE {})
VersionSeq(s) == (IF s.pol.v2 THEN <<2>> ELSE <<>>) \o (IF s.pol.v3 THEN <<3>> ELSE <<>>)

SortedPair(a, b) == IF a <= b THEN <<a, b>> ELSE <<b, a>>

\* a public DH value in range whose exponent is not known to the observer (ids -1, -1000, -1001, ...)
Unknown(id) == id = -1 \/ id <= -1000

\* result of an API call
Res(s, out, plain, err, evs) == [s |-> s, out |-> out, plain |-> plain, err |-> err, evs |-> evs]

\* ------------------------------------------------------------------------
\* Messages
\* ------------------------------------------------------------------------

QueryMsg(s) == [t |-> "Q", vs |-> VersionSeq(s)]
\* an OTR error message; code: which of the library's error codes the text was asked for ("unreadable",
\* "malformed", "encryption"), "other" for a text somebody else wrote
ErrM(code) == [t |-> "E", code |-> code]
ErrorMsg == ErrM("other")
PlainMsg(text, tagvs) == [t |-> "P", text |-> text, tag |-> tagvs, tagged |-> tagvs # <<>>]

Hdr(s) == [v |-> s.ver, st |-> IF s.ver = 3 THEN s.otag ELSE 0, rt |-> IF s.ver = 3 THEN s.ttag ELSE 0]

DHCommitMsg(s, enc, hash) == [t |-> "DHC", v |-> s.ver, st |-> Hdr(s).st, rt |-> Hdr(s).rt, enc |-> enc, hash |-> hash]
DHKeyMsg(s, gy) == [t |-> "DHK", v |-> s.ver, st |-> Hdr(s).st, rt |-> Hdr(s).rt, gy |-> gy]
SigBlob(kind, s1, s2, pub, kid) == [ok |-> TRUE, kind |-> kind, s1 |-> s1, s2 |-> s2, pub |-> pub, kid |-> kid, sig |-> TRUE]
RevealSigMsg(s, r, xs) == [t |-> "RS", v |-> s.ver, st |-> Hdr(s).st, rt |-> Hdr(s).rt, r |-> r, xs |-> xs]
SigMsg(s, xs) == [t |-> "SIG", v |-> s.ver, st |-> Hdr(s).st, rt |-> Hdr(s).rt, xs |-> xs]

\* ------------------------------------------------------------------------
\* Version commitment and instance tags
\* ------------------------------------------------------------------------

\* commitToVersionFrom: returns the version to use, or 0 for "no common version"
Commit(s, offered) ==
  IF s.ver # 0 THEN s.ver
  ELSE IF s.pol.v3 /\ 3 \in offered THEN 3
  ELSE IF s.pol.v2 /\ 2 \in offered THEN 2
  ELSE 0

\* generateInstanceTag as part of building a v3 header
WithOwnTag(s) == IF s.ver = 3 /\ s.otag = 0 THEN [s EXCEPT !.otag = TagOf(s.me)] ELSE s

\* verifyInstanceTags (v3). Returns [s, verdict] with verdict in {"ok","bad","other"}
VerifyTags(s, st, rt) ==
  LET adopt == IF KF_TagAdoptEarly THEN (s.ttag = 0)
               ELSE (s.ttag = 0 /\ st > 0 /\ rt >= 0 /\ (rt = 0 \/ s.otag = rt))
      s1 == IF adopt THEN [s EXCEPT !.ttag = st] ELSE s
  IN IF rt = -1 \/ st <= 0 THEN [s |-> s1, verdict |-> "bad"]
     ELSE IF (rt # 0 /\ s1.otag # rt) \/ s1.ttag # st THEN [s |-> s1, verdict |-> "other"]
     ELSE [s |-> s1, verdict |-> "ok"]

\* ------------------------------------------------------------------------
\* Key management
\* ------------------------------------------------------------------------

CtrOf(s, o, t) ==
  IF \E c \in s.ctrs : c[1] = o /\ c[2] = t
  THEN CHOOSE c \in s.ctrs : c[1] = o /\ c[2] = t
  ELSE <<o, t, 0, 0>>

SetCtr(s, c) == [s EXCEPT !.ctrs = {d \in @ : ~(d[1] = c[1] /\ d[2] = c[2])} \cup {c}]

\* pickOurKeys / pickTheirKey: secret id or 0 when the key id is not usable
OurKey(s, kid) ==
  IF kid = 0 \/ s.oid = 0 THEN 0
  ELSE IF kid = s.oid THEN s.cur
  ELSE IF kid = s.oid - 1 THEN s.prev
  ELSE 0

TheirKey(s, kid) ==
  IF kid = 0 \/ s.tid = 0 THEN 0
  ELSE IF kid = s.tid THEN s.tcur
  ELSE IF kid = s.tid - 1 THEN s.tprev
  ELSE 0

\* genDataMsg: returns [ok, s, m]
NoSMP == [k |-> 0, sec |-> <<>>, ok |-> "ok", run |-> 0]

GenDataS(s, text, resent, flag, tlvs, retransmitting, smp) ==
  IF s.ms # "enc" THEN [ok |-> FALSE, s |-> s, m |-> ErrorMsg]
  ELSE
    LET o == s.oid - 1
        t == s.tid
        mine == OurKey(s, o)
        theirs == TheirKey(s, t)
    IN IF mine = 0 \/ theirs = 0 THEN [ok |-> FALSE, s |-> s, m |-> ErrorMsg]
       ELSE
        LET s1 == [s EXCEPT !.macs = @ \cup {<<o, t, theirs, mine>>}]
            c == CtrOf(s1, o, t)
            n == IF c[3] = 0 THEN 1 ELSE c[3]
            s2 == SetCtr(s1, <<o, t, n + 1, c[4]>>)
            s3 == WithOwnTag(s2)
            m == [t |-> "D", v |-> s3.ver, st |-> Hdr(s3).st, rt |-> Hdr(s3).rt,
                  flag |-> flag, skid |-> o, rkid |-> t, next |-> s3.cur, ctr |-> n,
                  mac |-> <<mine, theirs>>, text |-> text, rs |-> resent, tlvs |-> tlvs,
                  discl |-> s3.pend, smp |-> smp]
            q == IF retransmitting THEN s3.rsq
                 ELSE IF KF_ResendHistory THEN Append(s3.rsq, text)
                 ELSE IF text = NoText THEN s3.rsq
                 ELSE <<text>>
        IN [ok |-> TRUE, m |-> m,
            s |-> [s3 EXCEPT !.pend = {}, !.rsf = 0, !.rsq = q]]

GenData(s, text, resent, flag, tlvs, retransmitting) == GenDataS(s, text, resent, flag, tlvs, retransmitting, NoSMP)

\* maybeRetransmit: returns [s, out, evs]
Retransmit(s) ==
  IF s.rsq = <<>> \/ s.rsf = 0 THEN [s |-> s, out |-> <<>>, evs |-> <<>>]
  ELSE IF s.ms # "enc" THEN [s |-> [s EXCEPT !.rsq = <<>>], out |-> <<>>, evs |-> <<>>]
  ELSE
    LET resending == (s.rsf = 1)
        q == s.rsq
        RECURSIVE Go(_, _, _)
        Go(st, i, acc) ==
          IF i > Len(q) THEN [s |-> st, out |-> acc]
          ELSE LET g == GenData(st, q[i], resending, 0, <<>>, TRUE)
               IN Go(g.s, i + 1, Append(acc, g.m))
        r == Go([s EXCEPT !.rsq = <<>>], 1, <<>>)
        ev == IF resending THEN "msg:MessageResent" ELSE "msg:MessageSent"
    IN [s |-> [r.s EXCEPT !.hb = FALSE], out |-> r.out, evs |-> [i \in 1..Len(q) |-> ev]]

\* ------------------------------------------------------------------------
\* AKE
\* ------------------------------------------------------------------------

WipeAKE(s) == [s EXCEPT !.ax = 0, !.agy = 0, !.aenc = 0, !.ahash = 0, !.akid = 0, !.atid = 0]

\* sendDHCommit: fresh AKE context, fresh x (and r), auth = awDHKey
SendDHCommit(s, fresh) ==
  LET s1 == [WipeAKE(s) EXCEPT !.auth = "awDHKey", !.ax = fresh, !.aenc = fresh, !.rstep = FALSE]
      s2 == WithOwnTag(s1)
  IN [s |-> s2, m |-> DHCommitMsg(s2, fresh, fresh)]

\* akeHasFinished followed by maybeRetransmit
Finish(s, fresh) ==
  LET was == s.ms
      s1 == [s EXCEPT !.oid = s.akid + 1, !.tid = s.atid,
                      !.prev = s.ax, !.cur = fresh, !.tcur = s.agy, !.tprev = 0,
                      !.ctrs = {}, !.macs = {}, !.pend = IF KF_ReAKEWipesMacs THEN {} ELSE s.pend \cup {<<k[3], k[4]>> : k \in s.macs},
                      !.ms = "enc", !.renc = TRUE, !.sess = IF KF_EarlySSID THEN @ ELSE s.asess]
      s2 == WipeAKE(s1)
      ev == (IF s.peer = s.key THEN <<"msg:MessageReflected">> ELSE <<>>)
            \o (IF was = "enc" THEN <<"sec:StillSecure">> ELSE <<"sec:GoneSecure">>)
  IN [s |-> s2, evs |-> ev]

\* The four AKE message kinds. Each returns Res; `fresh` is the id of the DH
\* secret drawn during the call (if one is drawn), `hi` the outcome of the
\* hash comparison on a DH-Commit collision.
RecvDHCommit(s, m, fresh, hi) ==
  LET asNone ==
        LET s1 == [WipeAKE(s) EXCEPT !.auth = "awRevSig", !.ax = fresh, !.aenc = m.enc, !.ahash = m.hash]
            s2 == WithOwnTag(s1)
        IN Res(s2, <<DHKeyMsg(s2, fresh)>>, NoText, FALSE, <<>>)
  IN CASE s.auth \in {"nil", "none", "awSig"} -> asNone
       [] s.auth = "awRevSig" ->
            LET s1 == WithOwnTag([s EXCEPT !.aenc = m.enc, !.ahash = m.hash, !.akid = 0, !.atid = 0])
            IN Res(s1, <<DHKeyMsg(s1, s1.ax)>>, NoText, FALSE, <<>>)
       [] s.auth = "awDHKey" ->
            IF hi THEN
              LET s1 == WithOwnTag(IF KF_CollisionWinner THEN [s EXCEPT !.auth = "awRevSig"] ELSE s)
              IN Res(s1, <<DHCommitMsg(s1, s1.aenc, s1.ax)>>, NoText, FALSE, <<>>)
            ELSE asNone

RecvDHKey(s, m) ==
  CASE s.auth = "awDHKey" ->
         IF m.gy = -2 THEN Res(s, <<>>, NoText, TRUE, <<>>)
         \* a value is already stored only if an earlier attempt got as far as storing it and then failed
         \* (the randomness source): the first value stays, the exchange goes on with it
         ELSE LET gy == IF s.agy # 0 THEN s.agy ELSE m.gy
                  s1 == WithOwnTag([s EXCEPT !.agy = gy, !.asess = SortedPair(s.ax, gy),
                                             !.sess = IF KF_EarlySSID THEN SortedPair(s.ax, gy) ELSE @, !.akid = s.akid + 1,
                                             !.rev = IF KF_EarlySSID THEN TRUE ELSE @, !.auth = "awSig"])
                  xs == SigBlob("R", s1.ax, gy, s1.key, s1.akid)
              IN Res(s1, <<RevealSigMsg(s1, s1.ax, xs)>>, NoText, FALSE, <<>>)
    [] s.auth = "awSig" ->
         IF m.gy = -2 THEN Res(s, <<>>, NoText, TRUE, <<>>)
         ELSE IF m.gy = s.agy /\ m.gy # -1
              THEN Res(s, <<RevealSigMsg(s, s.ax, SigBlob("R", s.ax, s.agy, s.key, s.akid))>>, NoText, FALSE, <<>>)
              ELSE Res(s, <<>>, NoText, FALSE, <<>>)
    [] OTHER -> Res(s, <<>>, NoText, FALSE, <<>>)

\* does the encrypted signature verify for a receiver holding own secret `mine`
\* and peer public value `theirs`, with the key set `kind`?
BlobMACOk(xs, kind, mine, theirs) ==
  xs.ok /\ xs.kind = kind /\ {xs.s1, xs.s2} = {mine, theirs}
BlobSigOk(xs, mine, theirs) == xs.sig /\ xs.s1 = theirs /\ xs.s2 = mine /\ xs.pub # "?"

RecvRevealSig(s, m, fresh) ==
  IF s.auth # "awRevSig" THEN Res(s, <<>>, NoText, FALSE, <<>>)
  ELSE IF ~(m.r = s.aenc /\ s.aenc = s.ahash /\ s.aenc > 0)
       THEN Res(s, <<>>, NoText, TRUE, <<>>)
  ELSE
    LET gx == s.aenc
        s1 == [s EXCEPT !.agy = gx, !.asess = SortedPair(s.ax, gx), !.sess = IF KF_EarlySSID THEN SortedPair(s.ax, gx) ELSE @]
        keep == IF KF_EarlyPeerKey THEN s1 ELSE s
    IN IF ~BlobMACOk(m.xs, "R", s.ax, gx) THEN Res(keep, <<>>, NoText, TRUE, <<>>)
       ELSE
        LET s2 == [s1 EXCEPT !.peer = m.xs.pub]
        IN IF ~BlobSigOk(m.xs, s.ax, gx) THEN Res(IF KF_EarlyPeerKey THEN s2 ELSE s, <<>>, NoText, TRUE, <<>>)
           ELSE
            LET s3 == WithOwnTag([s2 EXCEPT !.atid = m.xs.kid, !.akid = s2.akid + 1, !.rev = FALSE, !.auth = "none"])
                sig == SigMsg(s3, SigBlob("S", s3.ax, gx, s3.key, s3.akid))
                f == Finish(s3, fresh)
            IN Res(f.s, <<sig>>, NoText, FALSE, f.evs)

RecvSig(s, m, fresh) ==
  IF s.auth # "awSig" THEN Res(s, <<>>, NoText, FALSE, <<>>)
  ELSE IF ~BlobMACOk(m.xs, "S", s.ax, s.agy) THEN Res(s, <<>>, NoText, TRUE, <<>>)
  ELSE
    LET s2 == [s EXCEPT !.peer = m.xs.pub]
    IN IF ~BlobSigOk(m.xs, s.ax, s.agy) THEN Res(IF KF_EarlyPeerKey THEN s2 ELSE s, <<>>, NoText, TRUE, <<>>)
       ELSE LET s3 == [s2 EXCEPT !.atid = m.xs.kid, !.auth = "none", !.rev = TRUE]
                f == Finish(s3, fresh)
            IN Res(f.s, <<>>, NoText, FALSE, f.evs)

\* processAKE + potentialAuthError + toSendEncoded
RecvAKE(s0, m, fresh, hi) ==
  LET s == IF s0.auth = "nil" THEN [s0 EXCEPT !.auth = "none", !.rstep = FALSE] ELSE s0
      r == CASE m.t = "DHC" -> RecvDHCommit(s, m, fresh, hi)
             [] m.t = "DHK" -> RecvDHKey(s, m)
             [] m.t = "RS"  -> RecvRevealSig(s, m, fresh)
             [] m.t = "SIG" -> RecvSig(s, m, fresh)
      finished == (r.s.ms = "enc" /\ r.s.auth = "none" /\ s.auth \in {"awRevSig", "awSig"} /\ ~r.err)
      rt == IF m.t \in {"RS", "SIG"} /\ (KF_StraySigFlush \/ finished)
            THEN Retransmit(r.s) ELSE [s |-> r.s, out |-> <<>>, evs |-> <<>>]
      acted == ~r.err /\ (r.out # <<>> \/ r.s.auth # s.auth)
      s9 == IF KF_AKETimerAlways \/ acted THEN [rt.s EXCEPT !.rstep = TRUE] ELSE rt.s
  IN IF r.err THEN Res(s9, <<>>, NoText, TRUE, r.evs \o rt.evs \o <<"msg:SetupError">>)
     ELSE Res(s9, r.out \o rt.out, NoText, FALSE, r.evs \o rt.evs)

\* ------------------------------------------------------------------------
\* SMP (abstract).  The secret a party binds is the term
\*   <<initiator, responder, session pair, secret id>>
\* (fingerprints of both long-term keys, the SSID, the user's secret); the
\* protocol succeeds exactly when both parties' terms are equal.  An SMP
\* message is the record [k: TLV type, sec: the sender's term, ok: whether its
\* group elements and proofs are valid].
\* ------------------------------------------------------------------------
SMPTypes == {2, 3, 4, 5, 6, 7}

WipeSMP(s) == [s EXCEPT !.smp = "nil", !.smpsec = <<>>, !.smpq = FALSE, !.smprun = 0]

Term(init, resp, sess, secret) == <<init, resp, sess[1], sess[2], secret>>

\* receiveSMP for one SMP TLV of type k with payload p.  Returns [s, evs, reply (smp record or NoSMP), err]
SMPAbortRec == [k |-> 6, sec |-> <<>>, ok |-> "ok", run |-> 0]
RecvSMPTLV(s0, k, p) ==
  LET s == IF s0.smp = "nil" THEN [s0 EXCEPT !.smp = "expect1"] ELSE s0
      unexpected == [s |-> [s EXCEPT !.smp = "expect1"], evs |-> <<"smp:Error">>, reply |-> SMPAbortRec, err |-> FALSE]
      cheated == [s |-> [s EXCEPT !.smp = "expect1"], evs |-> <<"smp:Cheated">>, reply |-> SMPAbortRec, err |-> FALSE]
  IN CASE p.ok = "corrupt" /\ k # 6 -> IF KF_SMPCorruptSilent THEN [s |-> s, evs |-> <<>>, reply |-> NoSMP, err |-> TRUE]
                                        ELSE unexpected
       [] k = 6 -> [s |-> [s EXCEPT !.smp = "expect1"], evs |-> <<"smp:Abort">>, reply |-> NoSMP, err |-> FALSE]
       [] k \in {2, 7} ->
            IF s.smp # "expect1" THEN unexpected
            ELSE IF p.ok = "bad" THEN cheated
            ELSE [s |-> [s EXCEPT !.smp = "waiting", !.smpq = (k = 7), !.smprun = p.run],
                  evs |-> IF k = 7 THEN <<"smp:AskForAnswer">> ELSE <<"smp:AskForSecret">>, reply |-> NoSMP, err |-> FALSE]
       [] k = 3 ->
            IF s.smp # "expect2" THEN unexpected
            ELSE IF p.ok = "bad" \/ p.run # s.smprun THEN cheated
            ELSE [s |-> [s EXCEPT !.smp = "expect4"], evs |-> <<"smp:InProgress">>,
                  reply |-> [k |-> 4, sec |-> s.smpsec, ok |-> "ok", run |-> s.smprun], err |-> FALSE]
       [] k = 4 ->
            IF s.smp # "expect3" THEN unexpected
            ELSE IF p.ok = "bad" \/ p.run # s.smprun THEN cheated
            ELSE IF p.sec = s.smpsec
                 THEN [s |-> [s EXCEPT !.smp = "expect1", !.smpsec = <<>>, !.smpq = FALSE, !.smprun = 0], evs |-> <<"smp:Success">>,
                       reply |-> [k |-> 5, sec |-> s.smpsec, ok |-> "ok", run |-> s.smprun], err |-> FALSE]
                 ELSE [s |-> [s EXCEPT !.smp = "expect1"], evs |-> <<"smp:Failure">>, reply |-> SMPAbortRec, err |-> FALSE]
       [] k = 5 ->
            IF s.smp # "expect4" THEN unexpected
            ELSE IF p.ok = "bad" \/ p.run # s.smprun THEN cheated
            ELSE IF p.sec = s.smpsec
                 THEN [s |-> [s EXCEPT !.smp = "expect1", !.smpsec = <<>>, !.smpq = FALSE, !.smprun = 0], evs |-> <<"smp:Success">>, reply |-> NoSMP, err |-> FALSE]
                 ELSE [s |-> [s EXCEPT !.smp = "expect1"], evs |-> <<"smp:Failure">>, reply |-> SMPAbortRec, err |-> FALSE]

\* ------------------------------------------------------------------------
\* Data messages
\* ------------------------------------------------------------------------

InjectErr(s) == [s EXCEPT !.inj = @ + 1]

\* Result of a rejected data message (conflict error): Unreadable + error reply,
\* unless the sender asked to ignore unreadable messages.
RejectData(s, m, kind) ==
  IF m.flag % 2 = 1 THEN Res(s, <<>>, NoText, FALSE, <<>>)
  ELSE Res(s, <<ErrM("unreadable")>>, NoText, TRUE, <<kind>>)

\* TLV processing: disconnect, extra key, SMP.  acc = [s, evs, replies (seq of smp records)]
RECURSIVE ProcTLVs(_, _, _, _)
ProcTLVs(s, m, i, acc) ==
  IF i > Len(m.tlvs) \/ acc.err THEN acc
  ELSE
    LET t == m.tlvs[i]
        a == CASE t = 1 ->
                    [acc EXCEPT !.s = [WipeSMP(acc.s) EXCEPT !.ms = "fin", !.auth = "nil", !.renc = FALSE, !.rstep = FALSE,
                                         !.ax = 0, !.agy = 0, !.aenc = 0, !.ahash = 0, !.akid = 0, !.atid = 0,
                                         !.oid = 0, !.tid = 0, !.cur = 0, !.prev = 0, !.tcur = 0, !.tprev = 0,
                                         !.ctrs = {}, !.macs = {}, !.pend = {},
                                         !.rsq = IF KF_ResendHistory THEN acc.s.rsq ELSE <<>>],
                                 !.evs = IF acc.s.ms = "enc" THEN Append(@, "sec:GoneInsecure") ELSE @]
               [] t = 8 -> [acc EXCEPT !.evs = Append(@, "key:extra")]
               [] t \in SMPTypes ->
                    LET r == RecvSMPTLV(acc.s, t, IF t = 6 /\ m.smp.k # 6 THEN SMPAbortRec ELSE m.smp)
                    IN [acc EXCEPT !.s = r.s, !.evs = @ \o r.evs, !.err = r.err,
                                   !.replies = IF r.reply.k # 0 THEN Append(@, r.reply) ELSE @]
               [] OTHER -> acc
    IN ProcTLVs(a.s, m, i + 1, a)

RecvData(s, m, fresh) ==
  IF s.ms # "enc" THEN
    Res(s, <<>>, NoText, m.flag % 2 = 0, <<"msg:ReceivedMessageNotInPrivate">>)
  ELSE
    LET c == CtrOf(s, m.rkid, m.skid)
        sc == IF KF_CounterGrowth THEN SetCtr(s, c) ELSE s   \* entry created by the lookup
        replay == m.ctr <= c[4]
        sctr == IF KF_CounterFirst /\ ~replay THEN SetCtr(sc, <<c[1], c[2], c[3], m.ctr>>) ELSE sc
        mine == OurKey(s, m.rkid)
        theirs == TheirKey(s, m.skid)
        unr == "msg:ReceivedMessageUnreadable"
    IN IF KF_CounterFirst /\ replay THEN RejectData(sc, m, unr)
       ELSE IF mine = 0 \/ theirs = 0 THEN RejectData(sctr, m, unr)
       ELSE
        LET sm == [sctr EXCEPT !.macs = @ \cup {<<m.rkid, m.skid, theirs, mine>>}]
        IN IF m.mac # <<theirs, mine>> THEN RejectData(IF KF_MacPerMessage THEN sm ELSE sctr, m, unr)
           ELSE IF ~KF_CounterFirst /\ replay THEN RejectData(sm, m, unr)
           ELSE
            LET s1 == SetCtr(sm, <<m.rkid, m.skid, CtrOf(sm, m.rkid, m.skid)[3], m.ctr>>)
                \* rotateOurKeys
                s2 == IF m.rkid = s1.oid
                      THEN [s1 EXCEPT !.pend = @ \cup {<<k[3], k[4]>> : k \in {k \in s1.macs : k[1] = s1.oid - 1}},
                                       !.macs = {k \in @ : k[1] # s1.oid - 1},
                                       !.ctrs = IF KF_CounterGrowth THEN @ ELSE {cc \in @ : cc[1] >= s1.oid},
                                       !.prev = s1.cur, !.cur = fresh, !.oid = @ + 1]
                      ELSE s1
                \* rotateTheirKey
                s3 == IF m.skid = s2.tid
                      THEN [s2 EXCEPT !.pend = @ \cup {<<k[3], k[4]>> : k \in {k \in s2.macs : k[2] = s2.tid - 1}},
                                       !.macs = {k \in @ : k[2] # s2.tid - 1},
                                       !.ctrs = IF KF_CounterGrowth THEN @ ELSE {cc \in @ : cc[2] >= s2.tid},
                                       !.tprev = s2.tcur, !.tcur = m.next, !.tid = @ + 1]
                      ELSE s2
                plain == m.text
                ev0 == IF plain = NoText THEN <<"msg:LogHeartbeatReceived">> ELSE <<>>
                tl == ProcTLVs(s3, m, 1, [s |-> s3, evs |-> <<>>, replies |-> <<>>, err |-> FALSE])
                \* reply TLVs go out in one data message (the last SMP record is its payload)
                rep == IF tl.replies = <<>> THEN [ok |-> TRUE, s |-> tl.s, m |-> ErrorMsg]
                       ELSE GenDataS(tl.s, NoText, FALSE, 1, [i \in DOMAIN tl.replies |-> tl.replies[i].k], FALSE,
                                     tl.replies[Len(tl.replies)])
                s4 == rep.s
                repout == IF tl.replies # <<>> /\ rep.ok THEN <<rep.m>> ELSE <<>>
                \* heartbeat
                hbdue == plain # NoText /\ s4.hb
                hbg == IF hbdue THEN GenData(s4, NoText, FALSE, 1, <<>>, FALSE) ELSE [ok |-> TRUE, s |-> s4, m |-> ErrorMsg]
            IN IF tl.err
               THEN IF m.flag % 2 = 1 THEN Res(tl.s, <<>>, NoText, FALSE, ev0 \o tl.evs)
                    ELSE Res(tl.s, <<ErrM("malformed")>>, NoText, TRUE, ev0 \o tl.evs \o <<"msg:ReceivedMessageMalformed">>)
               ELSE IF tl.replies # <<>> /\ ~rep.ok
               THEN IF m.flag % 2 = 1 THEN Res(s4, <<>>, NoText, FALSE, ev0 \o tl.evs)
                    ELSE Res(s4, <<ErrM("unreadable")>>, NoText, TRUE, ev0 \o tl.evs \o <<"msg:ReceivedMessageUnreadable">>)
               ELSE IF hbdue /\ ~hbg.ok
               THEN Res(InjectErr(s4), <<ErrM("malformed")>>, plain, TRUE, ev0 \o tl.evs \o <<"msg:ReceivedMessageMalformed">>)
               ELSE IF hbdue
               THEN Res([hbg.s EXCEPT !.hb = FALSE], repout \o <<hbg.m>>, plain, FALSE, ev0 \o tl.evs \o <<"msg:LogHeartbeatSent">>)
               ELSE Res(s4, repout, plain, FALSE, ev0 \o tl.evs)

\* ------------------------------------------------------------------------
\* Receive
\* ------------------------------------------------------------------------

Forget(s) == [s EXCEPT !.frag = <<0, 0>>]

RecvQuery(s, m, fresh) ==
  LET offered == {m.vs[i] : i \in DOMAIN m.vs}
      v == Commit(s, offered)
  IN IF v = 0 THEN Res(s, <<>>, NoText, TRUE, <<>>)
     ELSE LET s1 == [s EXCEPT !.ver = v]
          IN IF (s1.ms = "enc" /\ s1.renc) \/ (s1.auth # "nil" /\ s1.rstep)
             THEN Res(s1, <<>>, NoText, FALSE, <<>>)
             ELSE IF ~KF_RequeryNewCommit /\ s1.auth = "awDHKey" /\ s1.ax # 0
             THEN LET s2 == WithOwnTag(s1) IN Res(s2, <<DHCommitMsg(s2, s2.aenc, s2.ax)>>, NoText, FALSE, <<>>)
             ELSE LET d == SendDHCommit(s1, fresh) IN Res(d.s, <<d.m>>, NoText, FALSE, <<>>)

PlainPolicies(s, evs) ==
  [s |-> IF s.ws = 1 THEN [s EXCEPT !.ws = 2] ELSE s,
   evs |-> IF s.ms # "plain" \/ s.pol.req THEN Append(evs, "msg:ReceivedMessageUnencrypted") ELSE evs]

RecvPlain(s, m, fresh) ==
  IF ~m.tagged \/ ~s.pol.wsstart THEN
    LET pp == PlainPolicies(s, <<>>) IN Res(pp.s, <<>>, m.text, FALSE, pp.evs)
  ELSE
    LET offered == {m.tag[i] : i \in DOMAIN m.tag}
        v == Commit(s, offered)
    IN IF v = 0 THEN LET pp == PlainPolicies(s, <<>>) IN Res(pp.s, <<>>, m.text, TRUE, pp.evs)
       ELSE IF ~KF_TagRestarts /\ ((s.ms = "enc" /\ s.renc) \/ (s.auth # "nil" /\ s.rstep))
            THEN LET pp == PlainPolicies([s EXCEPT !.ver = v], <<>>) IN Res(pp.s, <<>>, m.text, FALSE, pp.evs)
       ELSE LET s1 == [s EXCEPT !.ver = v]
                d == IF ~KF_RequeryNewCommit /\ s1.auth = "awDHKey" /\ s1.ax # 0
                     THEN LET s2 == WithOwnTag(s1) IN [s |-> s2, m |-> DHCommitMsg(s2, s2.aenc, s2.ax)]
                     ELSE SendDHCommit(s1, fresh)
                pp == PlainPolicies(d.s, <<>>)
            IN Res(pp.s, <<d.m>>, m.text, FALSE, pp.evs)

RecvError(s, m) ==
  LET s1 == IF s.ms = "enc" THEN [s EXCEPT !.rsf = 1] ELSE s
  IN Res(s1, IF s.pol.errstart THEN <<QueryMsg(s)>> ELSE <<>>, NoText, FALSE, <<"msg:ReceivedMessageGeneralError">>)

\* a rejected message decides neither the version nor the peer instance
Rollback(after, before) == IF KF_RejectCommits THEN after ELSE [after EXCEPT !.ver = before.ver, !.ttag = before.ttag]

\* binary messages: version check, header (tags), dispatch
RecvEncoded(s, m, fresh, hi) ==
  LET v == Commit(s, {m.v})
  IN IF v = 0 THEN Res(s, <<>>, NoText, TRUE, <<>>)
     ELSE
      LET s1 == [s EXCEPT !.ver = v]
      IN IF v # m.v THEN Res(Rollback(s1, s), <<>>, NoText, TRUE, <<>>)
         ELSE
          LET vt == IF v = 3 THEN VerifyTags(s1, m.st, m.rt) ELSE [s |-> s1, verdict |-> "ok"]
          IN CASE vt.verdict = "bad" ->
                    Res(Rollback(vt.s, s), <<ErrM("malformed")>>, NoText, TRUE, <<"msg:ReceivedMessageMalformed">>)
               [] vt.verdict = "other" ->
                    Res(Rollback(vt.s, s), <<>>, NoText, FALSE, <<"msg:ReceivedMessageForOtherInstance">>)
               [] OTHER ->
                    LET r == IF m.t = "D" THEN RecvData(vt.s, m, fresh) ELSE RecvAKE(vt.s, m, fresh, hi)
                    IN IF r.err \/ (m.t # "D" /\ r.out = <<>>) THEN [r EXCEPT !.s = Rollback(r.s, s)] ELSE r

\* Unparsable binary messages (t = "G"): why in
\*   "unknown" (no known type prefix), "armour" (bad base64), "short0" (< 2 bytes), "hdrshort", "version",
\*   "v1", "type" (unknown message type), "dhcommit" | "dhkey" | "revealsig" | "sig" | "data" (body does not parse)
RecvGarbageAKE(s0, m, fresh) ==
  LET s == IF s0.auth = "nil" THEN [s0 EXCEPT !.auth = "none", !.rstep = FALSE] ELSE s0
      fail(x) == Res(IF KF_AKETimerAlways THEN [x EXCEPT !.rstep = TRUE] ELSE x, <<>>, NoText, TRUE, <<"msg:SetupError">>)
      ign(x) == Res(IF KF_AKETimerAlways THEN [x EXCEPT !.rstep = TRUE] ELSE x, <<>>, NoText, FALSE, <<>>)
  IN CASE m.why = "type" -> fail(s)
       [] m.why = "dhcommit" ->
            IF ~KF_BadCommitWipes THEN fail(s)
            ELSE CASE s.auth \in {"none", "awSig"} -> fail([WipeAKE(s) EXCEPT !.auth = "none", !.ax = fresh])
                   [] s.auth = "awRevSig" -> fail([s EXCEPT !.aenc = 0, !.ahash = 0, !.akid = 0, !.atid = 0])
                   [] OTHER -> fail(s)
       [] m.why = "dhkey" -> IF s.auth \in {"awDHKey", "awSig"} THEN fail(s) ELSE ign(s)
       [] m.why = "revealsig" -> IF s.auth = "awRevSig" THEN fail(s) ELSE ign(s)
       [] m.why = "sig" -> IF s.auth = "awSig" THEN fail(s) ELSE ign(s)

RecvGarbage(s, m, fresh) ==
  CASE m.why = "unknown" -> Res(Forget(s), <<>>, NoText, FALSE, <<"msg:ReceivedMessageUnrecognized">>)
    [] m.why = "v1" -> Res(s, <<>>, NoText, TRUE, <<>>)
    [] m.why \in {"armour", "short0"} -> Res(Forget(s), <<>>, NoText, TRUE, <<>>)
    [] m.why \in {"version", "hdrshort"} ->
         LET v == Commit(s, {m.v})
             s1 == IF v = 0 THEN s ELSE [s EXCEPT !.ver = v]
             s2 == Rollback(s1, s)
         IN IF v = 0 \/ v # m.v \/ m.why = "version" THEN Res(Forget(s2), <<>>, NoText, TRUE, <<>>)
            ELSE IF v = 3 THEN Res(Forget(s2), <<ErrM("malformed")>>, NoText, TRUE, <<"msg:ReceivedMessageMalformed">>)
            ELSE Res(Forget(s2), <<>>, NoText, TRUE, <<>>)
    [] OTHER ->
         LET v == Commit(s, {m.v})
         IN IF v = 0 THEN Res(Forget(s), <<>>, NoText, TRUE, <<>>)
            ELSE
             LET s1 == [s EXCEPT !.ver = v]
             IN IF v # m.v THEN Res(Forget(Rollback(s1, s)), <<>>, NoText, TRUE, <<>>)
                ELSE
                 LET vt == IF v = 3 THEN VerifyTags(s1, m.st, m.rt) ELSE [s |-> s1, verdict |-> "ok"]
                     r == CASE vt.verdict = "bad" ->
                                 Res(vt.s, <<ErrM("malformed")>>, NoText, TRUE, <<"msg:ReceivedMessageMalformed">>)
                            [] vt.verdict = "other" ->
                                 Res(vt.s, <<>>, NoText, FALSE, <<"msg:ReceivedMessageForOtherInstance">>)
                            [] m.why = "data" ->
                                 IF vt.s.ms # "enc"
                                 THEN Res(vt.s, <<>>, NoText, m.flag % 2 = 0, <<"msg:ReceivedMessageNotInPrivate">>)
                                 ELSE IF m.flag % 2 = 1 THEN Res(vt.s, <<>>, NoText, FALSE, <<>>)
                                 ELSE Res(vt.s, <<ErrM("malformed")>>, NoText, TRUE, <<"msg:ReceivedMessageMalformed">>)
                            [] OTHER -> RecvGarbageAKE(vt.s, m, fresh)
                 IN [r EXCEPT !.s = Forget(IF r.err \/ vt.verdict = "other" \/ (m.why # "data" /\ r.out = <<>>) THEN Rollback(r.s, s) ELSE r.s)]

\* Receive of one complete (unfragmented or reassembled) message
\* a line the peer's user typed that begins like a query message *is* a query message to whoever
\* receives it (the abstraction reports the versions it names in q)
QLike(m) == IF m.t = "P" /\ "q" \in DOMAIN m THEN m.q ELSE <<>>

Receive(s, m, fresh, hi) ==
  IF ~OTREnabled(s) THEN Res(s, <<>>, IF m.t = "P" /\ ~m.tagged THEN m.text ELSE -1, FALSE, <<>>)
  ELSE CASE m.t = "E" -> RecvError(s, m)
         [] m.t = "Q" -> LET r == RecvQuery(s, m, fresh) IN [r EXCEPT !.s = Forget(r.s)]
         [] m.t = "P" /\ QLike(m) # <<>> ->
              LET r == RecvQuery(s, [t |-> "Q", vs |-> QLike(m)], fresh) IN [r EXCEPT !.s = Forget(r.s)]
         [] m.t = "P" -> LET r == RecvPlain(s, m, fresh) IN [r EXCEPT !.s = Forget(r.s)]
         [] m.t \in {"DHC", "DHK", "RS", "SIG", "D"} ->
              LET r == RecvEncoded(s, m, fresh, hi) IN [r EXCEPT !.s = Forget(r.s)]
         [] m.t = "G" /\ m.why \notin {"fragments", "strayfragment"} -> RecvGarbage(s, m, fresh)
         [] OTHER -> Res(s, <<>>, NoText, FALSE, <<>>)

\* Receive of a message that arrives as nf in-order fragments (nf = 1: whole).
\* The intermediate fragments return nothing; the last one processes the
\* reassembled message with forgetFragments = false.
\* Every fragment's prefix names the version (and, under v3, carries the instance tags):
\* the first fragment already commits the version and may bind the peer's tag.
ReceiveFrags(s, m, nf, fresh, hi) ==
  IF nf <= 1 \/ ~OTREnabled(s) \/ m.t \notin {"DHC", "DHK", "RS", "SIG", "D"} THEN Receive(s, m, fresh, hi)
  ELSE
    LET v == Commit(s, {m.v})
        s1 == IF v = 0 THEN s ELSE [s EXCEPT !.ver = v]
        vt == IF v = 3 /\ m.v = 3 THEN VerifyTags(s1, m.st, m.rt) ELSE [s |-> s1, verdict |-> "ok"]
    IN IF v = 0 \/ vt.verdict # "ok" THEN Res(vt.s, <<>>, NoText, v = 0, <<>>)
       ELSE LET r == Receive(vt.s, m, fresh, hi)
            IN IF KF_FragKeep THEN [r EXCEPT !.s.frag = <<nf, nf>>] ELSE r

\* ------------------------------------------------------------------------
\* User calls
\* ------------------------------------------------------------------------

Send(s, text) ==
  IF ~OTREnabled(s) THEN Res(s, <<PlainMsg(text, <<>>)>>, NoText, FALSE, <<>>)
  ELSE CASE s.ms = "plain" ->
              IF s.pol.req
              THEN Res([s EXCEPT !.hb = FALSE, !.rsf = 2, !.rsq = Append(@, text)],
                       <<QueryMsg(s)>>, NoText, FALSE, <<"msg:EncryptionRequired">>)
              ELSE IF s.pol.wstag /\ s.ws # 2
                   THEN Res([s EXCEPT !.ws = 1], <<PlainMsg(text, VersionSeq(s))>>, NoText, FALSE, <<>>)
                   ELSE Res(s, <<PlainMsg(text, <<>>)>>, NoText, FALSE, <<>>)
         [] s.ms = "enc" ->
              LET g == GenData(s, text, FALSE, 0, <<>>, FALSE)
              IN IF g.ok THEN Res([g.s EXCEPT !.hb = FALSE], <<g.m>>, NoText, FALSE, <<>>)
                 ELSE Res(InjectErr(s), <<ErrM("encryption")>>, NoText, TRUE, <<"msg:EncryptionError">>)
         [] s.ms = "fin" ->
              Res(s, <<>>, NoText, TRUE, <<"msg:ConnectionEnded">>)

End(s) ==
  LET g == IF s.ms = "enc" THEN GenData(WipeSMP(s), NoText, FALSE, 1, <<1>>, FALSE)
           ELSE [ok |-> FALSE, s |-> s, m |-> ErrorMsg]
      s1 == IF g.ok THEN [g.s EXCEPT !.hb = FALSE, !.rsq = IF KF_ResendHistory THEN @ ELSE <<>>]
            ELSE IF s.ms = "enc" /\ ~KF_ResendHistory THEN [g.s EXCEPT !.rsq = <<>>] ELSE g.s
      s2 == [WipeAKE(s1) EXCEPT !.renc = FALSE, !.auth = "nil", !.ms = "plain",
                                !.cur = 0, !.prev = 0, !.tcur = 0, !.rstep = FALSE]
  IN Res(s2, IF g.ok THEN <<g.m>> ELSE <<>>, NoText, s.ms = "enc" /\ ~g.ok,
         IF s.ms = "enc" THEN <<"sec:GoneInsecure">> ELSE <<>>)

Query(s) == Res(s, <<QueryMsg(s)>>, NoText, FALSE, <<>>)

Tick(s) == Res([s EXCEPT !.hb = TRUE, !.rstep = FALSE, !.renc = FALSE], <<>>, NoText, FALSE, <<>>)

\* StartAuthenticate(question?, secret)
SMPStart(s0, secret, q, run) ==
  LET s == IF s0.smp = "nil" THEN [s0 EXCEPT !.smp = "expect1"] ELSE s0
  IN IF s.ms # "enc" THEN Res(s, <<>>, NoText, TRUE, <<>>)
     ELSE
      LET term == Term(s.key, s.peer, s.sess, secret)
          k == IF q THEN 7 ELSE 2
          tlvs == IF s.smp = "expect1" THEN <<k>> ELSE <<6, k>>
          s1 == [s EXCEPT !.smp = "expect2", !.smpsec = term, !.smprun = run]
          g == GenDataS(s1, NoText, FALSE, 1, tlvs, FALSE, [k |-> k, sec |-> <<>>, ok |-> "ok", run |-> run])
      IN IF g.ok THEN Res([g.s EXCEPT !.hb = FALSE], <<g.m>>, NoText, FALSE, <<>>)
         ELSE Res(s1, <<>>, NoText, TRUE, <<>>)

\* ProvideAuthenticationSecret(secret)
SMPAnswer(s, secret) ==
  IF s.smp # "waiting" THEN Res([s EXCEPT !.smp = "expect1"], <<>>, NoText, TRUE, <<>>)
  ELSE IF s.ms # "enc" THEN Res([s EXCEPT !.smp = "expect1"], <<>>, NoText, TRUE, <<>>)
  ELSE
    LET term == Term(s.peer, s.key, s.sess, secret)
        s1 == [s EXCEPT !.smp = "expect3", !.smpsec = term]
        g == GenDataS(s1, NoText, FALSE, 1, <<3>>, FALSE, [k |-> 3, sec |-> term, ok |-> "ok", run |-> s.smprun])
    IN IF g.ok THEN Res([g.s EXCEPT !.hb = FALSE], <<g.m>>, NoText, FALSE, <<>>)
       ELSE Res(s1, <<>>, NoText, TRUE, <<>>)

\* AbortAuthentication()
SMPAbort(s) ==
  LET s1 == [s EXCEPT !.smp = "expect1"]
      g == GenDataS(s1, NoText, FALSE, 1, <<6>>, FALSE, SMPAbortRec)
  IN IF g.ok THEN Res([g.s EXCEPT !.hb = FALSE], <<g.m>>, NoText, FALSE, <<>>)
     ELSE Res(s1, <<>>, NoText, TRUE, <<>>)

ExtraKey(s) ==
  IF s.ms # "enc" \/ s.tid = 0 THEN Res(s, <<>>, NoText, TRUE, <<>>)
  ELSE LET g == GenData(s, NoText, FALSE, 1, <<8>>, FALSE)
       IN IF g.ok THEN Res([g.s EXCEPT !.hb = FALSE], <<g.m>>, NoText, FALSE, <<>>)
          ELSE Res(s, <<>>, NoText, TRUE, <<>>)

=============================================================================
