-------------------------------- MODULE Frag --------------------------------
(***************************************************************************)
(* Fragmentation of OTR messages (fragmentation.go).                       *)
(*                                                                         *)
(* Sender: an encoded message of length L is cut for fragment size S with  *)
(* a fragment header of length H (17 bytes "?OTR,k,n," under v2, 35 bytes  *)
(* "?OTR|st|rt,k,n," under v3) and one trailing separator.                 *)
(*                                                                         *)
(* Receiver: the reassembly context (k, n, what the buffer holds) and the  *)
(* arrivals the property quantifies over: next piece, restart (k = 1),     *)
(* wrong total, duplicate, illegal index (k = 0, n = 0, k > n), foreign    *)
(* instance (the peer's fragment for another of our instances; a stranger's *)
(* fragment for us), unparsable fragment, and whole messages in between;    *)
(* under v3 also which peer instance the conversation is bound to.          *)
(***************************************************************************)
EXTENDS Integers, Sequences, FiniteSets, TLC, Json

CONSTANTS MaxL,        \* sender: message lengths 1..MaxL
          Hs,          \* sender: header lengths to try
          MaxArrivals, \* receiver: length of arrival sequences
          Export

\* ------------------------------------------------------------------------
\* Sender (pure functions; checked for all L, S in range by the ASSUME below)
\* ------------------------------------------------------------------------
PayloadLen(S, H) == S - H - 1
Whole(L, S, H) == L <= S \/ S = 0 \/ PayloadLen(S, H) <= 0
NumPieces(L, S, H) == IF Whole(L, S, H) THEN 1 ELSE (L \div PayloadLen(S, H)) + 1
PieceStart(i, S, H) == (i - 1) * PayloadLen(S, H)                       \* i = 1..n, 0-based offset
PieceEnd(i, L, S, H) == IF i * PayloadLen(S, H) < L THEN i * PayloadLen(S, H) ELSE L
PieceLen(i, L, S, H) == PieceEnd(i, L, S, H) - PieceStart(i, S, H)
FragmentLen(i, L, S, H) == H + PieceLen(i, L, S, H) + 1

\* every piece fits the size, the pieces tile the message without gap or overlap
PieceBound(L, S, H) == Whole(L, S, H) \/ \A i \in 1..NumPieces(L, S, H) : FragmentLen(i, L, S, H) <= S /\ PieceLen(i, L, S, H) >= 0
Lossless(L, S, H) == Whole(L, S, H) \/
   /\ PieceStart(1, S, H) = 0
   /\ PieceEnd(NumPieces(L, S, H), L, S, H) = L
   /\ \A i \in 1..(NumPieces(L, S, H) - 1) : PieceEnd(i, L, S, H) = PieceStart(i + 1, S, H)

SenderOK == \A H \in Hs : \A L \in 1..MaxL : \A S \in 0..(H + MaxL + 2) : PieceBound(L, S, H) /\ Lossless(L, S, H)
ASSUME SenderOK

\* ------------------------------------------------------------------------
\* Receiver
\* ------------------------------------------------------------------------
\* Two fragmented messages in flight: "M" (3 pieces) and "N" (2 pieces)
Total(m) == IF m = "M" THEN 3 ELSE 2
Msgs == {"M", "N"}

Arrivals ==
  [t : {"piece"}, m : Msgs, k : 1..3] \cup [t : {"wrongtotal"}, m : Msgs, k : 1..3]
  \cup [t : {"zero", "nzero", "beyond", "foreign", "stranger", "garbage", "whole"}, m : {"M"}, k : {1}]
  \cup [t : {"otherformat"}, m : {"M"}, k : {1, 3}]
  \cup [t : {"badtag"}, m : {"M"}, k : {2, 3}]
  \cup [t : {"errormsg", "query", "nested"}, m : {"M"}, k : {1}]

VARIABLES k, n,      \* reassembly context: index and total (0, 0 = empty)
          buf,       \* which pieces the buffer holds: sequence of <<message, index>>
          processed, \* what was handed to message processing: "M", "N", "W" (whole) or "X" (a mixture)
          count,     \* arrivals so far
          bound,     \* (v3) the peer instance the conversation is bound to: 0 none yet, 1 the peer, 2 a stranger
          bound0,    \* its initial value (for the replay)
          path

vars == <<k, n, buf, processed, count, bound, bound0, path>>

Init == k = 0 /\ n = 0 /\ buf = <<>> /\ processed = <<>> /\ count = 0 /\ path = <<>> /\ bound \in {0, 1} /\ bound0 = bound

Assembled(b) == IF \E m \in Msgs : b = [i \in 1..Total(m) |-> <<m, i>>]
                THEN (CHOOSE m \in Msgs : b = [i \in 1..Total(m) |-> <<m, i>>]) ELSE "X"

\* the context after a fragment with index kk and total nn carrying piece pc
Step(kk, nn, pc) ==
  IF kk = 0 \/ nn = 0 \/ kk > nn THEN [k |-> k, n |-> n, buf |-> buf]        \* illegal: ignored
  ELSE IF kk = 1 THEN [k |-> 1, n |-> nn, buf |-> <<pc>>]                       \* restart
  ELSE IF kk = k + 1 /\ nn = n THEN [k |-> kk, n |-> nn, buf |-> Append(buf, pc)]
  ELSE [k |-> 0, n |-> 0, buf |-> <<>>]                                        \* out of order: forget

Arrive(a) ==
  /\ count < MaxArrivals
  /\ count' = count + 1
  /\ path' = IF Export THEN Append(path, a) ELSE path
  /\ bound0' = bound0
  \* "badtag": the piece of M that would come next, under a sender tag (k = 2) or receiver tag (k = 3) below 0x100:
  \* a malformed message, refused whoever sent it
  /\ CASE a.t \in {"foreign", "garbage", "otherformat", "errormsg", "badtag"} -> UNCHANGED <<k, n, buf, processed, bound>>
       \* an OTR error message in between is handed to the user and leaves the reassembly alone; any other
       \* whole message (a text, a query) ends it
       \* a complete one-piece fragment of the peer's whose payload again begins like a fragment (and is not a
       \* valid one): the outer one ends the reassembly in progress, the inner one is refused
       [] a.t = "nested" -> IF bound = 2 THEN UNCHANGED <<k, n, buf, processed, bound>>
                            ELSE /\ k' = 0 /\ n' = 0 /\ buf' = <<>> /\ bound' = 1 /\ UNCHANGED processed
       [] a.t = "query" -> /\ k' = 0 /\ n' = 0 /\ buf' = <<>> /\ UNCHANGED <<processed, bound>>
       \* "otherformat": a well-formed fragment (first / completing piece) in the header format of the other
       \* protocol version is not a fragment of this conversation
       \* a fragment of the peer's, addressed to another of our instances ("foreign"), is nothing to us:
       \* it does not even tell us who our peer is
       [] a.t = "whole" -> /\ k' = 0 /\ n' = 0 /\ buf' = <<>> /\ bound' = bound
                           /\ processed' = Append(processed, "W")
       \* a fragment (2 of 3) from another instance than the one we are bound to is ignored; while we are
       \* not bound it is the first we hear and binds us (the protocol has no other way to learn the peer)
       [] a.t = "stranger" ->
            IF bound = 1 THEN UNCHANGED <<k, n, buf, processed, bound>>
            ELSE /\ bound' = 2 /\ k' = 0 /\ n' = 0 /\ buf' = <<>> /\ UNCHANGED processed
       [] bound = 2 -> UNCHANGED <<k, n, buf, processed, bound>>      \* the peer is not who we are bound to
       [] OTHER ->
            /\ bound' = 1
            /\ LET kk == CASE a.t = "zero" -> 0 [] a.t = "beyond" -> 4 [] OTHER -> a.k
                   nn == CASE a.t = "nzero" -> 0 [] a.t = "beyond" -> 3 [] a.t = "wrongtotal" -> Total(a.m) + 2 [] OTHER -> Total(a.m)
                   c == Step(kk, nn, <<a.m, a.k>>)
               IN IF c.k > 0 /\ c.k = c.n
                  THEN /\ processed' = Append(processed, Assembled(c.buf))
                       /\ k' = 0 /\ n' = 0 /\ buf' = <<>>
                  ELSE /\ k' = c.k /\ n' = c.n /\ buf' = c.buf
                       /\ UNCHANGED processed

Next == \E a \in Arrivals : (a.t # "piece" \/ a.k <= Total(a.m)) /\ (a.t # "wrongtotal" \/ a.k <= Total(a.m)) /\ Arrive(a)

Spec == Init /\ [][Next]_vars

view == <<k, n, buf, processed, count, bound, bound0>>
Emit == Export => PrintT(<<"FRAGSCHED", ToJson([steps |-> path', k |-> k', n |-> n', processed |-> processed', bound |-> bound', bound0 |-> bound0'])>>)

\* Only completely and correctly reassembled messages are processed
OnlyComplete == \A i \in DOMAIN processed : processed[i] # "X"

\* a message is processed once per complete in-order delivery of its pieces: the number of times "M"
\* was processed never exceeds the number of times its last piece arrived
LastPieces(m) == Cardinality({i \in DOMAIN path : path[i].t = "piece" /\ path[i].m = m /\ path[i].k = Total(m)})
ProcessedOnce == Export => \A m \in Msgs : Cardinality({i \in DOMAIN processed : processed[i] = m}) <= LastPieces(m)

\* the buffer never holds more than the pieces of one total
BufferBounded == Len(buf) <= 3 /\ k = Len(buf)

=============================================================================
