---------------------------- MODULE SharedAppend ----------------------------
(***************************************************************************)
(* The one way two independent conversations could interfere in a Go       *)
(* library without shared mutable state: a package-level byte slice used   *)
(* as the prefix of an append.  Two goroutines each compute                *)
(* append(prefix, own data...).  If the prefix has spare capacity the      *)
(* append writes in place into the shared backing array (byte by byte,     *)
(* interleavable) and both results alias it; otherwise each append copies. *)
(* TLC shows: results are always prefix \o own data iff cap = len.         *)
(***************************************************************************)
EXTENDS Integers, Sequences, TLC

CONSTANTS PrefixLen, Cap, DataLen   \* lengths; Cap >= PrefixLen

G == {1, 2}
Prefix == [i \in 1..PrefixLen |-> 0]
DataOf(g) == [i \in 1..DataLen |-> g]       \* goroutine g appends DataLen bytes of value g

VARIABLES arr,      \* the shared backing array (length Cap)
          pc,       \* goroutine -> number of bytes written so far, or "done"
          res       \* goroutine -> its result (sequence), once done

vars == <<arr, pc, res>>
InPlace == Cap - PrefixLen >= DataLen

Init == /\ arr = [i \in 1..Cap |-> 0]
        /\ pc = [g \in G |-> 0]
        /\ res = [g \in G |-> <<>>]

\* one byte of the in-place append
Write(g) == /\ InPlace /\ pc[g] \in 0..(DataLen - 1)
            /\ arr' = [arr EXCEPT ![PrefixLen + pc[g] + 1] = g]
            /\ pc' = [pc EXCEPT ![g] = @ + 1]
            /\ UNCHANGED res

\* the result is read (it aliases the shared array when the append was in place)
Finish(g) == /\ pc[g] = (IF InPlace THEN DataLen ELSE 0)
             /\ res' = [res EXCEPT ![g] = IF InPlace THEN SubSeq(arr, 1, PrefixLen + DataLen) ELSE Prefix \o DataOf(g)]
             /\ pc' = [pc EXCEPT ![g] = -1]
             /\ UNCHANGED arr

Next == \E g \in G : Write(g) \/ Finish(g)
Spec == Init /\ [][Next]_vars

NoInterference == \A g \in G : pc[g] = -1 => res[g] = Prefix \o DataOf(g)
PrefixIntact == \A i \in 1..PrefixLen : arr[i] = 0
=============================================================================
