----------------------------- MODULE OTRTrace -----------------------------
(***************************************************************************)
(* Trace validation: every event recorded from the real code (one per      *)
(* public API call: arguments, results, events, projected state) must be a *)
(* step of the OTR specification.  The trace is a concatenation of runs,   *)
(* each starting with an "Init" event.  For every event the specification  *)
(* step is evaluated on the state before the call; each field in which the *)
(* implementation's observable differs from the specification is reported  *)
(* (line, field, expected, observed) and the specification state is then   *)
(* re-synchronised with the logged projection so that the rest of the      *)
(* trace is still checked.  Properties of the specification are evaluated  *)
(* as invariants on every state of the trace (see the PROPERTIES section). *)
(***************************************************************************)
EXTENDS OTR, Json, IOUtils, SequencesExt

VARIABLES l,      \* next line of the trace
          st,     \* party -> specification state
          mism,   \* number of mismatching events so far
          obs     \* observation/history record for the properties

vars == <<l, st, mism, obs>>

Trace == ndJsonDeserialize(IOEnv.TRACE)
\* Second pass (NORESYNC=1): the specification's state is *not* replaced by the logged projection after
\* each event, it evolves by its own rules from the same inputs; a deviation in a projected field that the
\* first pass adopted then shows in what the calls that follow return, if it has any consequence at all.
NoResync == "NORESYNC" \in DOMAIN IOEnv /\ IOEnv.NORESYNC = "1"

\* "C": a second client of B's account (runs of OTRMulti.tla); absent from all other runs
Parties == {"A", "B", "C"}

TupSet(sq) == {<<sq[i][1], sq[i][2]>> : i \in DOMAIN sq}
Tup4Set(sq) == {<<sq[i][1], sq[i][2], sq[i][3], sq[i][4]>> : i \in DOMAIN sq}

\* an encrypted signature the observer cannot resolve (made with a DH value nobody's exponent is known for)
Opaque(xs) == IF ~xs.ok \/ Unknown(xs.s1) \/ Unknown(xs.s2)
              THEN [ok |-> FALSE, kind |-> "?", s1 |-> 0, s2 |-> 0, pub |-> "?", kid |-> 0, sig |-> FALSE] ELSE xs
OpaqueMsg(m) == IF m.t \in {"RS", "SIG"} THEN [m EXCEPT !.xs = Opaque(@)] ELSE m
OpaquePair(pr) == IF Unknown(pr[1]) \/ Unknown(pr[2]) THEN <<-1, -1>> ELSE pr

\* logged message -> specification message
NormMsg(m) ==
  CASE m.t = "Q" -> [t |-> "Q", vs |-> m.vs]
    [] m.t = "E" -> [t |-> "E", code |-> m.code]
    [] m.t = "P" -> [t |-> "P", text |-> m.text, tag |-> m.tag, tagged |-> m.tagged]
    [] m.t = "DHC" -> [t |-> "DHC", v |-> m.v, st |-> m.st, rt |-> m.rt, enc |-> m.enc, hash |-> m.hash]
    [] m.t = "DHK" -> [t |-> "DHK", v |-> m.v, st |-> m.st, rt |-> m.rt, gy |-> m.gy]
    [] m.t = "RS" -> [t |-> "RS", v |-> m.v, st |-> m.st, rt |-> m.rt, r |-> m.r, xs |-> m.xs]
    [] m.t = "SIG" -> [t |-> "SIG", v |-> m.v, st |-> m.st, rt |-> m.rt, xs |-> m.xs]
    [] m.t = "D" -> [t |-> "D", v |-> m.v, st |-> m.st, rt |-> m.rt, flag |-> m.flag, skid |-> m.skid,
                     rkid |-> m.rkid, next |-> m.next, ctr |-> m.ctr, mac |-> <<m.mac[1], m.mac[2]>>,
                     text |-> m.text, rs |-> m.rs, tlvs |-> m.tlvs, discl |-> TupSet(m.discl),
                     smp |-> [k |-> m.smp.k, sec |-> m.smp.sec, ok |-> m.smp.ok, run |-> m.smp.run]]
    [] OTHER -> [t |-> "G", why |-> m.why, v |-> m.v, st |-> m.st, rt |-> m.rt, typ |-> m.typ, flag |-> m.flag]

NormOut(out) == [i \in DOMAIN out |-> OpaqueMsg(NormMsg(out[i]))]
SpecOut(out) == [i \in DOMAIN out |-> OpaqueMsg(out[i])]

\* logged projection -> the comparable part of a specification state
StateFields == {"ms", "ver", "ws", "auth", "ax", "agy", "aenc", "ahash", "akid", "atid",
                "oid", "tid", "cur", "prev", "tcur", "tprev", "ctrs", "macs", "pend",
                "sess", "peer", "rev", "otag", "ttag", "smp", "rsf", "rsq", "frag",
                "hb", "rstep", "renc"}

Logged(x, f) ==
  CASE f = "ctrs" -> Tup4Set(x.ctrs)
    [] f = "macs" -> Tup4Set(x.macs)
    [] f = "pend" -> TupSet(x.pend)
    [] f = "sess" -> OpaquePair(<<x.sess[1], x.sess[2]>>)
    [] f = "frag" -> <<x.frag[1], x.frag[2]>>
    [] OTHER -> x[f]

\* specification state with every projected field replaced by the logged value
Resync(s, x) ==
  [f \in DOMAIN s |-> IF f \in StateFields THEN Logged(x, f) ELSE s[f]]

Fresh(e) == IF Len(e.fresh) > 0 THEN e.fresh[1] ELSE 0

PolOf(r) == [v2 |-> r.v2, v3 |-> r.v3, req |-> r.req, wstag |-> r.wstag, wsstart |-> r.wsstart, errstart |-> r.errstart]

\* an incoming line that a user typed and that begins like a query message keeps the versions it names
InMsg(m) == IF m.t = "P" /\ "q" \in DOMAIN m
            THEN [t |-> "P", text |-> m.text, tag |-> m.tag, tagged |-> m.tagged, q |-> m.q] ELSE NormMsg(m)

\* the specification step for an event
Apply(e) ==
  LET s == st[e.p]
  IN CASE e.ev = "Recv" -> ReceiveFrags(s, InMsg(e.m), e.m.nf, Fresh(e), e.hi)
       [] e.ev = "Send" -> Send(s, e.text)
       [] e.ev = "End" -> End(s)
       [] e.ev = "Query" -> Query(s)
       [] e.ev = "Tick" -> Tick(s)
       [] e.ev = "ExtraKey" -> ExtraKey(s)
       \* a question too long for a TLV: the call is refused and nothing else happens
       [] e.ev = "SMPStart" -> IF e.big THEN [s |-> [s EXCEPT !.smp = IF @ = "nil" THEN "expect1" ELSE @], out |-> <<>>, plain |-> NoText, err |-> TRUE, evs |-> <<>>]
                               ELSE SMPStart(s, e.s, e.q, e.run)
       [] e.ev = "SMPAnswer" -> SMPAnswer(s, e.s)
       [] e.ev = "SMPAbort" -> SMPAbort(s)

\* fields (of the result and of the state) in which specification and code differ
ResultDiffs(e, r) ==
  (IF SpecOut(r.out) # NormOut(e.out) THEN {"out"} ELSE {})
  \cup (IF r.plain # e.plain THEN {"plain"} ELSE {})
  \cup (IF r.err # e.err THEN {"err"} ELSE {})
  \cup (IF r.evs # e.evs THEN {"evs"} ELSE {})
  \cup (IF e.panic THEN {"panic"} ELSE {})

SpecField(s, f) == IF f = "sess" THEN OpaquePair(s.sess) ELSE s[f]
StateDiffs(e, r) == {f \in StateFields : SpecField(r.s, f) # Logged(e.st, f)}

Report(e, r, d) ==
  PrintT(<<"MISMATCH", ToJson([line |-> l, i |-> e.i, ev |-> e.ev, p |-> e.p, fields |-> d,
           expected |-> [f \in d |-> IF f \in StateFields THEN r.s[f]
                                     ELSE IF f = "panic" THEN FALSE ELSE r[f]],
           observed |-> [f \in d |-> IF f \in StateFields THEN Logged(e.st, f)
                                     ELSE IF f = "out" THEN NormOut(e.out) ELSE e[f]]])>>)

\* ------------------------------------------------------------------------
\* Observation record and the properties evaluated on the observed behaviour
\* ------------------------------------------------------------------------
InitObsFam(fam) ==
  [fam |-> fam,
   delivered |-> [p \in Parties |-> <<>>],   \* <<text, flaggedUnencrypted, resent>> returned by Receive
   accepted |-> [p \in Parties |-> <<>>],    \* texts accepted by Send while encrypted
   lastsec |-> [p \in Parties |-> "none"],
   wire |-> {},                               \* <<text, resent, wire id>> of every data message emitted
   started |-> FALSE,
   ksess |-> [p \in Parties |-> <<0, 0>>],
   krev |-> [p \in Parties |-> FALSE],    \* session id pair when the party last went or stayed secure
   smpok |-> [p \in Parties |-> FALSE],      \* SMP success seen since the last deviant message
   used |-> [p \in Parties |-> {}],          \* receiving MAC keys that verified an accepted message
   disclosed |-> [p \in Parties |-> {}],     \* MAC keys disclosed so far
   flagged |-> {}]
InitObs == InitObsFam("none")

\* events that accompany a rejection (anything else means the message had an effect by design)
RejectionEvents == {"msg:ReceivedMessageUnreadable", "msg:ReceivedMessageMalformed", "msg:ReceivedMessageNotInPrivate",
                    "msg:ReceivedMessageForOtherInstance", "msg:ReceivedMessageUnrecognized", "msg:SetupError"}
HasEv(e, x) == \E i \in DOMAIN e.evs : e.evs[i] = x
SecOf(e) == SelectSeq(e.evs, LAMBDA x : x \in {"sec:GoneSecure", "sec:GoneInsecure", "sec:StillSecure"})
DataOuts(e) == {i \in DOMAIN e.out : e.out[i].t = "D"}
IsPrefixSeq(a, b) == Len(a) <= Len(b) /\ \A i \in DOMAIN a : a[i] = b[i]
TextsOf(sq) == [i \in DOMAIN sq |-> sq[i][1]]
LiveRecvKeys(x) == {<<y, z>> : z \in ({x.cur, x.prev} \ {0}), y \in ({x.tcur, x.tprev} \ {0})}

NextObs(e) ==
  [obs EXCEPT
     !.delivered[e.p] = IF e.ev = "Recv" /\ e.plain > 0 /\ e.atk = ""
                        THEN Append(@, <<e.plain, HasEv(e, "msg:ReceivedMessageUnencrypted"), e.prs, e.m.t = "D">>) ELSE @,
     !.accepted[e.p] = IF e.ev = "Send" /\ st[e.p].ms = "enc" /\ ~e.err THEN Append(@, e.text) ELSE @,
     !.lastsec[e.p] = IF SecOf(e) # <<>> THEN SecOf(e)[Len(SecOf(e))] ELSE @,
     !.wire = @ \cup {<<e.out[i].text, e.out[i].rs, e.out[i].id>> : i \in {j \in DataOuts(e) : e.out[j].text > 0}},
     !.used[e.p] = IF e.ev = "Recv" /\ e.m.t = "D" /\ ~e.err /\ st[e.p].ms = "enc" /\ e.m.mac[1] > 0
                       /\ (e.plain > 0 \/ HasEv(e, "msg:LogHeartbeatReceived"))
                    THEN @ \cup {<<e.m.mac[1], e.m.mac[2]>>} ELSE IF e.st.ms # "enc" THEN {} ELSE @,
     !.disclosed[e.p] = @ \cup UNION {TupSet(e.out[i].discl) : i \in DataOuts(e)},
     !.smpok[e.p] = IF e.ev = "Recv" /\ e.atk # "" THEN FALSE ELSE IF HasEv(e, "smp:Success") THEN TRUE ELSE @,
     !.smpok[Other(e.p)] = IF e.ev = "Recv" /\ e.atk # "" THEN FALSE ELSE @,
     !.krev[e.p] = IF HasEv(e, "sec:GoneSecure") \/ HasEv(e, "sec:StillSecure") THEN e.st.rev ELSE @,
     !.ksess[e.p] = IF HasEv(e, "sec:GoneSecure") \/ HasEv(e, "sec:StillSecure") THEN Logged(e.st, "sess") ELSE @,
     !.started = @ \/ e.st.auth \notin {"nil", "none"} \/ e.st.ms = "enc"]

OwnerOfId(id) == IF (id > 100 /\ id < 200) \/ (id >= 100000 /\ id < 200000) THEN "A"
                 ELSE IF (id > 200 /\ id < 300) \/ (id >= 200000 /\ id < 300000) THEN "B"
                 ELSE IF (id > 300 /\ id < 400) \/ (id >= 300000 /\ id < 400000) THEN "E"
                 ELSE IF (id > 400 /\ id < 500) \/ (id >= 400000 /\ id < 500000) THEN "C" ELSE "?"

\* the long-term key a principal signs with at this point of the trace
KeyNow(o) == IF o \in Parties THEN st[o].key ELSE KeyOf(o)

\* set of <<property, reason>> violated by event e (pre-state st, post observation o)
PropViolations(e, o) ==
  LET p == e.p
      q == Other(e.p)
      fifoData == o.fam = "fifo-data"
  IN
  (IF fifoData /\ e.ev = "Recv" /\ e.atk = "" /\ e.m.t = "D" /\ (e.err \/ HasEv(e, "msg:ReceivedMessageUnreadable") \/ HasEv(e, "msg:ReceivedMessageMalformed"))
   THEN {<<"C04", "genuine data message rejected">>} ELSE {})
  \cup (IF fifoData /\ ~IsPrefixSeq(TextsOf(o.delivered[p]), o.accepted[q])
        THEN {<<"C04", "delivery is not a prefix of what the peer sent">>} ELSE {})
  \cup (IF fifoData /\ e.ev = "Done" /\ e.qa = 0 /\ e.qb = 0
           /\ \E r \in {"A", "B"} : TextsOf(o.delivered[r]) # o.accepted[Other(r)]
        THEN {<<"C04", "text lost at quiescence">>} ELSE {})
  \cup (IF e.ev = "Recv" /\ e.plain > 0 /\ e.m.t = "D" /\ ~e.prs
           /\ \E i \in DOMAIN obs.delivered[p] : obs.delivered[p][i][1] = e.plain /\ obs.delivered[p][i][4] /\ ~obs.delivered[p][i][3]
        THEN {<<"C05", "text delivered twice">>} ELSE {})
  \cup (IF e.ev # "Done" /\ e.st.ms = "enc" /\ \E i \in DataOuts(e) : TupSet(e.out[i].discl) \cap LiveRecvKeys(e.st) # {}
        THEN {<<"C09", "disclosed MAC key of a key pair that is still accepted">>} ELSE {})
  \cup (IF e.ev # "Done" /\ e.st.ms = "enc" /\ \E k \in o.used[p] :
             k \notin LiveRecvKeys(e.st) /\ k \notin TupSet(e.st.pend) /\ k \notin o.disclosed[p]
             /\ ~\E i \in DOMAIN e.st.macs : <<e.st.macs[i][3], e.st.macs[i][4]>> = k
        THEN {<<"C09", "used MAC key of a retired key pair was never disclosed">>} ELSE {})
  \cup (IF e.ev # "Done" /\ ((e.st.ms = "enc") # (o.lastsec[p] \in {"sec:GoneSecure", "sec:StillSecure"}))
        THEN {<<"C18", "encrypted state and security events disagree">>} ELSE {})
  \cup (IF e.ev # "Done" /\ Cardinality({i \in DataOuts(e) : e.out[i].rs}) > 1
        THEN {<<"C18", "more than one message resent">>} ELSE {})
  \cup (IF e.ev # "Done" /\ \E i \in DataOuts(e) : e.out[i].text > 0 /\
             \E w \in obs.wire : w[1] = e.out[i].text /\ w[2] = e.out[i].rs /\ w[3] # e.out[i].id
        THEN {<<"C18", "text transmitted more than once">>} ELSE {})
  \cup (IF e.ev # "Done" /\ \E i \in DOMAIN e.out : e.out[i].t = "P" /\ e.out[i].text # 0 /\
             OTREnabled(st[p]) /\ (e.ev # "Send" \/ st[p].ms \in {"enc", "fin"} \/ st[p].pol.req)
        THEN {<<"C03", "user text emitted in clear">>} ELSE {})
  \cup (IF e.ev # "Done" /\ e.st.ms = "enc" /\ e.st.nrsq > 1
        THEN {<<"C19", "resend queue retains more than the last message">>} ELSE {})
  \cup (IF e.ev # "Done" /\ e.st.ms = "enc" /\ e.st.nctr > 4
        THEN {<<"C19", "counter table exceeds the live key pairs">>} ELSE {})
  \cup (IF e.ev # "Done" /\ e.st.ms = "enc" /\ e.st.nmac > 4
        THEN {<<"C19", "MAC key history exceeds the live key pairs">>} ELSE {})
  \cup (IF e.ev # "Done" /\ e.st.ms = "enc" /\ e.st.npend > 8
        THEN {<<"C19", "undisclosed MAC key list grows">>} ELSE {})
  \cup (IF e.ev # "Done" /\ e.st.penddup > 0
        THEN {<<"C19", "the same MAC key is queued for disclosure more than once">>} ELSE {})
  \cup (IF e.ev # "Done" /\ e.st.inj > 0
        THEN {<<"C19", "injected messages retained after the call">>} ELSE {})
  \cup (IF e.ev = "Recv" /\ e.atk # "" /\ e.plain = 0 /\ (\A i \in DOMAIN e.out : e.out[i].t = "E")
           /\ (\A i \in DOMAIN e.evs : e.evs[i] \in RejectionEvents)
           /\ \E f \in (StateFields \ {"frag"}) : SpecField(st[p], f) # Logged(e.st, f)
                  /\ ~(f = "auth" /\ st[p].auth = "nil" /\ e.st.auth = "none" /\ ~e.st.rstep)
        THEN {<<"C06", "a rejected message changed the conversation's state">>} ELSE {})
  \cup (IF e.ev = "Recv" /\ e.atk # "" /\ e.plain # 0 /\ ~HasEv(e, "msg:ReceivedMessageUnencrypted")
           /\ (st[p].ms # "plain" \/ st[p].pol.req)
           /\ ~(e.m.t = "D" /\ e.m.mac[1] > 0 /\ <<e.m.mac[1], e.m.mac[2]>> = <<TheirKey(st[p], e.m.skid), OurKey(st[p], e.m.rkid)>>)
        THEN {<<"C02", "a tampered or forged message yielded plaintext">>} ELSE {})
  \* made from what travels on the wire alone: the MAC key had been published there
  \cup (IF e.ev = "Recv" /\ e.atk = "forged-with-disclosed-key" /\ e.plain # 0 /\ ~HasEv(e, "msg:ReceivedMessageUnencrypted")
        THEN {<<"C02", "a message forged with a MAC key that had been published on the wire was accepted">>} ELSE {})
  \cup (IF e.ev # "Done" /\ o.fam # "relay" /\ e.st.ms = "enc" /\ HasEv(e, "sec:GoneSecure") /\
             ~(/\ e.st.peer \in {"A", "B", "E", "X"}
               /\ e.st.sess[1] > 0 /\ e.st.sess[2] > 0
               /\ {KeyNow(OwnerOfId(e.st.sess[1])), KeyNow(OwnerOfId(e.st.sess[2]))} = {KeyNow(p), e.st.peer}
               /\ e.st.tcur > 0 /\ KeyNow(OwnerOfId(e.st.tcur)) = e.st.peer
               /\ {e.st.prev, e.st.tcur} = {e.st.sess[1], e.st.sess[2]})
        THEN {<<"C01", "encrypted with a peer key, DH value or session id that does not belong to the party that signed the exchange">>} ELSE {})
  \cup (IF e.ev # "Done" /\ e.st.ms = "enc" /\ (HasEv(e, "sec:GoneSecure") \/ HasEv(e, "sec:StillSecure")) /\ e.st.peer = KeyNow(p)
           /\ o.fam # "reflect"
        THEN {<<"C01", "encrypted with itself">>} ELSE {})
  \cup (IF e.ev = "Recv" /\ st[p].ver = 0 /\ e.st.ver # 0 /\ e.m.t \in {"Q", "P", "DHC", "DHK", "RS", "SIG", "D"} /\
             LET offered == CASE e.m.t = "Q" -> {e.m.vs[i] : i \in DOMAIN e.m.vs}
                              [] e.m.t = "P" -> {e.m.tag[i] : i \in DOMAIN e.m.tag}
                              [] OTHER -> {e.m.v}
                 cand == offered \cap Versions(st[p])
             IN cand = {} \/ e.st.ver # (CHOOSE v \in cand : \A u \in cand : u <= v)
        THEN {<<"C16", "committed version is not the highest one allowed by policy among those offered">>} ELSE {})
  \cup (IF e.ev # "Done" /\ \E i \in DOMAIN e.out : e.out[i].t \in {"DHC", "DHK", "RS", "SIG", "D"} /\ e.out[i].v \notin Versions(st[p])
        THEN {<<"C16", "emitted a message of a version the policy forbids">>} ELSE {})
  \cup (IF e.ev # "Done" /\ ~OTREnabled(st[p]) /\ e.ev \in {"Send", "Recv"} /\
             ~(IF e.ev = "Send" THEN Len(e.out) = 1 /\ e.out[1].t = "P" /\ e.out[1].text = e.text /\ ~e.out[1].tagged
               ELSE Len(e.out) = 0 /\ e.raweq)
        THEN {<<"C16", "with no version allowed a message was not handed through unchanged">>} ELSE {})
  \cup (IF e.ev # "Done" /\ ((e.ev = "Recv" /\ ~e.m.xt) \/ \E i \in DOMAIN e.out : ~e.out[i].xt)
        THEN {<<"C15", "ExtractInstanceTags disagrees with the tags the message carries">>} ELSE {})
  \cup (IF e.ev # "Done" /\ e.st.otag = -1
        THEN {<<"C15", "own instance tag below 0x100">>} ELSE {})
  \cup (IF e.ev = "Recv" /\ st[p].ttag # 0 /\ e.st.ttag # st[p].ttag
        THEN {<<"C15", "the bound peer instance changed">>} ELSE {})
  \cup (IF e.ev = "Recv" /\ e.m.t \in {"DHC", "DHK", "RS", "SIG", "D", "G"} /\ e.m.t # "G" /\ e.m.v = 3 /\ st[p].ver = 3
           /\ st[p].ttag # 0 /\ (e.m.st # st[p].ttag \/ (e.m.rt # 0 /\ e.m.rt # st[p].otag))
           /\ (e.plain # 0 \/ (\E i \in DOMAIN e.out : e.out[i].t # "E" \/ (e.m.st > 0 /\ e.m.rt # -1))
                \/ \E f \in (StateFields \ {"frag"}) : SpecField(st[p], f) # Logged(e.st, f))
        THEN {<<"C15", "a message from or for another instance was not ignored">>} ELSE {})
  \cup (IF e.ev # "Done" /\ e.panic
        THEN {<<"C13", "a public API call panicked">>} ELSE {})
  \cup (IF e.ev # "Done" /\ e.allock > 4096 + 64 * (e.inlen \div 1024 + 1)
        THEN {<<"C13", "a call allocated memory out of proportion to its input">>} ELSE {})
  \cup (IF e.ev # "Done" /\ e.ms > 5000
        THEN {<<"C13", "a call took more than five seconds">>} ELSE {})
  \cup (IF e.ev = "Recv" /\ HasEv(e, "smp:Success") /\ e.m.t = "D" /\
             (e.m.smp.ok # "ok" \/ e.m.smp.sec # st[p].smpsec)
        THEN {<<IF e.m.smp.ok # "ok" THEN "C12" ELSE "C11", "SMP reported success although the secrets bound by the two parties differ or the message was deviant">>} ELSE {})
  \cup (IF e.ev = "Done" /\ o.fam = "smpdev" /\ ~(o.smpok["A"] /\ o.smpok["B"])
        THEN {<<"C12", "after a deviant SMP message an honest run with equal secrets did not succeed on both sides">>} ELSE {})
  \cup (IF e.ev # "Done" /\ \E i \in DOMAIN e.st.held : e.st.held[i] \notin {e.st.cur, e.st.prev, e.st.ax}
        THEN {<<"C08", "a retired DH exponent is still reachable from the conversation">>} ELSE {})
  \cup (IF e.ev # "Done" /\ e.st.dirty # <<>>
        THEN {<<"C08", "a retired DH exponent was dropped without being erased">>} ELSE {})
  \cup (IF e.ev # "Done" /\ \E i \in DOMAIN e.st.kept : \A j \in DOMAIN e.st.rsq : e.st.rsq[j] # e.st.kept[i]
        THEN {<<"C08", "a text is retained although it is neither queued nor the last message">>} ELSE {})
  \cup (IF e.ev # "Done" /\ e.st.ms # "enc" /\ e.st.auth \in {"nil", "none"} /\ e.st.held # <<>>
        THEN {<<"C08", "DH exponents are retained although no session or key exchange exists">>} ELSE {})
  \cup (IF e.ev = "End" /\ ~e.err /\ (e.st.auth \notin {"nil", "none"} \/ e.st.ax # 0)
        THEN {<<"C08", "End() left the ephemeral secrets of an unfinished key exchange reachable">>,
              <<"C18", "End() did not abandon the key exchange in progress: a late message can make the ended conversation encrypted again">>} ELSE {})
  \cup (IF e.ev # "Done" /\ e.st.ms # "enc" /\ e.st.smpheld > 0
        THEN {<<"C08", "secret exponents of an SMP run are retained although the session has ended">>} ELSE {})
  \cup (IF e.ev # "Done" /\ e.st.ms = "fin" /\ e.st.rsq # <<>>
        THEN {<<"C08", "text retained after the peer ended the session">>} ELSE {})
  \cup (IF e.ev # "Done" /\ \E i \in DataOuts(e) : e.out[i].pad # "ok"
        THEN {<<"C10", "a data message does not end in the padding TLV the specification prescribes">>} ELSE {})
  \cup (IF e.ev # "Done" /\ ~e.xk
        THEN {<<"C10", "the extra symmetric key returned is not the one derived from the message's DH secret">>} ELSE {})
  \cup (IF e.ev # "Done" /\ (HasEv(e, "key:extra-wrong-key") \/ HasEv(e, "key:extra-wrong-usage"))
        THEN {<<"C10", "the received extra symmetric key, usage or usage data differ from what was sent">>} ELSE {})
  \cup (IF e.ev # "Done" /\ \E i \in DataOuts(e) : e.out[i].mac[1] = 0 \/ e.out[i].text = -1
        THEN {<<"C10", "an emitted data message is not authenticated/encrypted with the keys the specification derives">>} ELSE {})
  \cup (IF e.ev # "Done" /\ \E i \in DOMAIN e.out : e.out[i].t \in {"RS", "SIG"} /\ (~e.out[i].xs.ok \/ ~e.out[i].xs.sig) /\ ~Unknown(st[p].agy) /\ ~Unknown(e.st.agy)
        THEN {<<"C10", "an emitted signature message does not verify under the keys the specification derives">>} ELSE {})
  \cup (IF e.ev = "Done" /\ o.fam = "randfail" /\
             ~((\E i \in DOMAIN o.delivered["B"] : o.delivered["B"][i][1] = 9001) /\ (\E i \in DOMAIN o.delivered["A"] : o.delivered["A"][i][1] = 9002))
        THEN {<<"C13", "after a failure of the randomness source the conversation is no longer usable">>} ELSE {})
  \cup (IF e.ev # "Done" /\ e.st.ms = "enc" /\ (Logged(e.st, "sess") # o.ksess[p] \/ e.st.rev # o.krev[p])
        THEN {<<"C01", "the session id reported while encrypted is that of an exchange that has not completed">>} ELSE {})
  \cup (IF e.ev = "Done" /\ o.fam = "ake" /\ e.qa = 0 /\ e.qb = 0 /\ o.started /\
             ~(/\ st["A"].ms = "enc" /\ st["B"].ms = "enc" /\ st["A"].sess = st["B"].sess
               /\ st["A"].peer = "B" /\ st["B"].peer = "A" /\ st["A"].rev # st["B"].rev)
        THEN {<<"C07", "key exchange did not complete">>} ELSE {})

\* the observed step, projected on key ids and key-id-pair tables, is a step of Ratchet.tla (whose bound holds for all histories)
RT == INSTANCE Ratchet WITH r <- [oid |-> 0, tid |-> 0, ctrs |-> {}, macs |-> {}]
RProj(s) == [oid |-> s.oid, tid |-> s.tid, ctrs |-> {<<c[1], c[2]>> : c \in s.ctrs}, macs |-> {<<k[1], k[2]>> : k \in s.macs}]
RProjL(x) == [oid |-> x.oid, tid |-> x.tid, ctrs |-> {<<x.ctrs[i][1], x.ctrs[i][2]>> : i \in DOMAIN x.ctrs},
              macs |-> {<<x.macs[i][1], x.macs[i][2]>> : i \in DOMAIN x.macs}]
RatchetViolations(e) ==
  IF e.ev # "Done" /\ ~e.rf /\ e.st.ms # "broken" /\ ~RT!RStep(RProj(st[e.p]), RProjL(e.st))
  THEN {<<"C19", "key ids and the tables indexed by key-id pairs did not evolve by a step of the bounded ratchet (Ratchet.tla)">>} ELSE {}

MultiPaired(q) == /\ st["A"].ms = "enc" /\ st[q].ms = "enc" /\ st["A"].sess = st[q].sess /\ st["A"].sess # <<0, 0>>
                  /\ st["A"].ver = st[q].ver /\ (st["A"].ver = 3 => (st["A"].ttag = TagOf(q) /\ st[q].ttag = 1))
                  /\ st["A"].rev # st[q].rev /\ st["A"].peer = "B" /\ st[q].peer = "A"
MultiViolations(e, o) ==
  (IF e.ev = "Done" /\ o.fam = "multi" /\ e.qa = 0 /\ e.qb = 0 /\ o.started /\ ~(MultiPaired("B") \/ MultiPaired("C"))
   THEN {<<"C15", "with the peer's account logged in twice the key exchange did not complete with either client">>} ELSE {})
  \cup (IF e.ev # "Done" /\ o.fam \in {"multi", "multi-life"} /\ \E q \in {"B", "C"} :
            st["A"].ver = 3 /\ st["A"].ttag # 0 /\ st["A"].ttag # TagOf(q) /\ (IF e.p = q THEN e.st.ms ELSE st[q].ms) = "enc"
        THEN {<<"C15", "a client instance the peer is not bound to has an encrypted session">>} ELSE {})

ChangedFields(e) == IF e.ev = "Recv" THEN {f \in (StateFields \ {"frag"}) : SpecField(st[e.p], f) # Logged(e.st, f)} ELSE {}
ReportProp(e, v) ==
  PrintT(<<"PROP", ToJson([line |-> l, i |-> e.i, ev |-> e.ev, p |-> e.p, prop |-> v[1], reason |-> v[2],
                           changed |-> IF v[1] = "C06" THEN ChangedFields(e) ELSE {},
                           atk |-> IF e.ev = "Recv" THEN e.atk ELSE ""])>>)

TraceInit ==
  /\ l = 1
  /\ st = [p \in Parties |-> InitParty(p, NoPol, 0)]
  /\ mism = 0
  /\ obs = InitObs

DoInit(e) ==
  /\ st' = [p \in Parties |-> IF p \in DOMAIN e.pol THEN InitParty(p, PolOf(e.pol[p]), e.ver[p]) ELSE InitParty(p, NoPol, 0)]
  /\ obs' = InitObsFam(e.fam)
  /\ mism' = mism

DoStep(e) ==
  LET r == Apply(e)
      \* a call during which the randomness source failed: the specification does not say what it
      \* returns; the state it leaves behind is adopted and everything that follows is validated
      d == IF e.rf THEN (IF e.panic THEN {"panic"} ELSE {}) ELSE ResultDiffs(e, r) \cup StateDiffs(e, r)
      o == NextObs(e)
      pv == {v \in PropViolations(e, o) \cup MultiViolations(e, o) \cup RatchetViolations(e) : v \notin obs.flagged}
  IN /\ st' = [st EXCEPT ![e.p] = IF NoResync /\ ~e.rf THEN r.s ELSE Resync(r.s, e.st)]
     /\ IF d = {} THEN mism' = mism ELSE /\ Report(e, r, d)
                                         /\ mism' = mism + 1
     /\ \A v \in pv : ReportProp(e, v)
     /\ obs' = [o EXCEPT !.flagged = @ \cup pv]

\* the user of endpoint e.p starts over with a fresh conversation object (same client: same instance tag) that
\* signs with another long-term key; the peer keeps its conversation
DoReset(e) ==
  /\ st' = [st EXCEPT ![e.p] = [InitParty(e.p, PolOf(e.pol), 0) EXCEPT !.otag = st[e.p].otag, !.key = e.key]]
  /\ obs' = [obs EXCEPT !.lastsec[e.p] = "none", !.used[e.p] = {}]
  /\ mism' = mism

DoDone(e) ==
  LET pv == {v \in PropViolations(e, obs) \cup MultiViolations(e, obs) : v \notin obs.flagged}
  IN /\ \A v \in pv : ReportProp(e, v)
     /\ obs' = [obs EXCEPT !.flagged = @ \cup pv]
     /\ UNCHANGED <<st, mism>>

TraceNext ==
  /\ l <= Len(Trace)
  /\ l' = l + 1
  /\ LET e == Trace[l] IN
       CASE e.ev = "Init" -> DoInit(e)
         [] e.ev = "Done" -> DoDone(e)
         [] e.ev = "Reset" -> DoReset(e)
         [] OTHER -> DoStep(e)

TraceSpec == TraceInit /\ [][TraceNext]_vars

\* acceptance: the whole trace was consumed and nothing differed
TraceDone == (l = Len(Trace) + 1) => PrintT(<<"TRACE-END", l - 1, mism>>)
TraceAccepted == TLCGet("stats").diameter - 1 = Len(Trace)

=============================================================================
