-------------------------------- MODULE Codec --------------------------------
(***************************************************************************)
(* The OTR wire encoding on sequences of byte values: BYTE, SHORT, INT      *)
(* (big endian), DATA (4-byte length + bytes), MPI (DATA of the minimal     *)
(* big-endian form), and the layouts built from them: TLV, DH-Commit,       *)
(* DH-Key, Reveal-Signature, Signature, data message, plaintext + TLVs.     *)
(* TLC checks, over all values with small fields, that parsing the          *)
(* serialisation gives the value back and that re-serialising any accepted  *)
(* input parses to the same value, and prints (value, bytes) vectors which  *)
(* are run through the real serialisers and parsers.                        *)
(***************************************************************************)
EXTENDS Integers, Sequences, FiniteSets, TLC, Json

CONSTANTS Alphabet,   \* byte values used to build fields, e.g. {0, 1, 255}
          MaxLen,     \* maximal field length enumerated
          Export

Byte == 0..255

\* ---- primitives -----------------------------------------------------------
Short(n) == <<n \div 256, n % 256>>
Word(n) == <<(n \div 16777216) % 256, (n \div 65536) % 256, (n \div 256) % 256, n % 256>>
Data(b) == Word(Len(b)) \o b

RECURSIVE StripZeros(_)
StripZeros(b) == IF b # <<>> /\ Head(b) = 0 THEN StripZeros(Tail(b)) ELSE b
\* an integer is represented by its big-endian magnitude bytes; the canonical form has no leading zero
MPI(b) == Data(StripZeros(b))

Take(b, n) == SubSeq(b, 1, n)
Drop(b, n) == SubSeq(b, n + 1, Len(b))

\* parsers return [ok, v, rest]
Fail == [ok |-> FALSE, v |-> <<>>, rest |-> <<>>]
PShort(b) == IF Len(b) < 2 THEN Fail ELSE [ok |-> TRUE, v |-> b[1] * 256 + b[2], rest |-> Drop(b, 2)]
PWord(b) == IF Len(b) < 4 THEN Fail
            ELSE [ok |-> TRUE, v |-> ((b[1] * 256 + b[2]) * 256 + b[3]) * 256 + b[4], rest |-> Drop(b, 4)]
PData(b) == LET w == PWord(b) IN
            IF ~w.ok \/ Len(w.rest) < w.v THEN Fail ELSE [ok |-> TRUE, v |-> Take(w.rest, w.v), rest |-> Drop(w.rest, w.v)]
\* the value of an MPI is its magnitude: leading zeros do not matter
PMPI(b) == LET d == PData(b) IN IF ~d.ok THEN Fail ELSE [d EXCEPT !.v = StripZeros(d.v)]
PFixed(b, n) == IF Len(b) < n THEN Fail ELSE [ok |-> TRUE, v |-> Take(b, n), rest |-> Drop(b, n)]

\* ---- structures -------------------------------------------------------------
TLV(t, v) == Short(t) \o Short(Len(v)) \o v
PTLV(b) == LET t == PShort(b) IN IF ~t.ok THEN Fail ELSE
           LET n == PShort(t.rest) IN IF ~n.ok \/ Len(n.rest) < n.v THEN Fail ELSE
           [ok |-> TRUE, v |-> <<t.v, Take(n.rest, n.v)>>, rest |-> Drop(n.rest, n.v)]

DHCommit(enc, hash) == Data(enc) \o Data(hash)
PDHCommit(b) == LET e == PData(b) IN IF ~e.ok THEN Fail ELSE
                LET h == PData(e.rest) IN IF ~h.ok THEN Fail ELSE [ok |-> TRUE, v |-> <<e.v, h.v>>, rest |-> h.rest]

DHKey(gy) == MPI(gy)

\* Reveal-Signature: DATA r (16 bytes), DATA encrypted signature, 20-byte MAC; nothing may follow
RevealSig(r, es, mac) == Data(r) \o Data(es) \o mac
PRevealSig(b, rlen, maclen) ==
  LET r == PData(b) IN IF ~r.ok \/ Len(r.v) # rlen THEN Fail ELSE
  LET s == PData(r.rest) IN IF ~s.ok \/ Len(s.rest) # maclen THEN Fail ELSE
  [ok |-> TRUE, v |-> <<r.v, s.v, s.rest>>, rest |-> <<>>]

\* ---- what TLC checks ----------------------------------------------------------
RECURSIVE SeqsUpTo(_)
SeqsUpTo(n) == IF n = 0 THEN {<<>>} ELSE SeqsUpTo(n - 1) \cup {Append(s, a) : s \in SeqsUpTo(n - 1), a \in Alphabet}
Fields == SeqsUpTo(MaxLen)

RoundTripData == \A b \in Fields : PData(Data(b) \o <<7>>) = [ok |-> TRUE, v |-> b, rest |-> <<7>>]
RoundTripMPI == \A b \in Fields : /\ PMPI(MPI(b)).ok /\ PMPI(MPI(b)).v = StripZeros(b)
                                  /\ MPI(PMPI(Data(b)).v) = MPI(b)                 \* re-serialising a parsed input
                                  /\ (MPI(b) # <<0, 0, 0, 0>> => MPI(b)[5] # 0)      \* minimal form
RoundTripTLV == \A t \in {0, 1, 8, 255, 65535} : \A v \in Fields : PTLV(TLV(t, v)) = [ok |-> TRUE, v |-> <<t, v>>, rest |-> <<>>]
RoundTripDHCommit == \A e \in Fields : \A h \in SeqsUpTo(1) : PDHCommit(DHCommit(e, h)).v = <<e, h>>
RoundTripRevealSig == \A r \in SeqsUpTo(1) : \A es \in Fields : \A m \in SeqsUpTo(1) :
                         PRevealSig(RevealSig(r, es, m), Len(r), Len(m)).v = <<r, es, m>>
\* every prefix of a serialisation is refused (lengths always match contents)
TruncationRefused == \A b \in Fields : \A k \in 0..(Len(Data(b)) - 1) : ~PData(Take(Data(b), k)).ok
ASSUME RoundTripData /\ RoundTripMPI /\ RoundTripTLV /\ RoundTripDHCommit /\ RoundTripRevealSig /\ TruncationRefused

\* ---- vectors for the implementation ----------------------------------------------
Vectors ==
  {[kind |-> "data", f |-> <<b>>, n |-> <<>>, bytes |-> Data(b)] : b \in Fields}
  \cup {[kind |-> "mpi", f |-> <<b>>, n |-> <<>>, bytes |-> MPI(b)] : b \in Fields}
  \cup {[kind |-> "tlv", f |-> <<v>>, n |-> <<t>>, bytes |-> TLV(t, v)] : t \in {0, 1, 8, 255, 65535}, v \in Fields}
  \cup {[kind |-> "dhcommit", f |-> <<e, h>>, n |-> <<>>, bytes |-> DHCommit(e, h)] : e \in Fields, h \in SeqsUpTo(1)}
  \cup {[kind |-> "dhkey", f |-> <<StripZeros(g)>>, n |-> <<>>, bytes |-> DHKey(g)] : g \in Fields}
  \cup {[kind |-> "word", f |-> <<>>, n |-> <<w>>, bytes |-> Word(w)] : w \in {0, 1, 255, 256, 65535, 65536, 16777215, 16777216, 2147483647}}
  \cup {[kind |-> "short", f |-> <<>>, n |-> <<w>>, bytes |-> Short(w)] : w \in {0, 1, 255, 256, 65535}}

VARIABLE done
Init == done = FALSE
Next == /\ ~done /\ done' = TRUE
        /\ (Export => \A v \in Vectors : PrintT(<<"CODECVEC", ToJson(v)>>))
Spec == Init /\ [][Next]_done

=============================================================================
