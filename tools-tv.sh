#!/bin/bash
# usage: bin-tv.sh trace.ndjson [cfg]
set -e
T=$(mktemp -d /tmp/tlcXXXX)
cp /verif/spec/*.tla $T/
cp ${2:-/verif/spec/cfg/trace-unfixed.cfg} $T/OTRTrace.cfg
cd $T
TRACE=$1 timeout 600 tlc -workers 1 -metadir $T/meta OTRTrace.tla 2>&1
rm -rf $T
