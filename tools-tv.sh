#!/bin/bash
# usage: bin-tv.sh trace.ndjson [cfg]
set -e
T=$(mktemp -d /tmp/tlcXXXX)
cp /verif/spec/*.tla $T/
cp ${2:-/verif/spec/cfg/trace-unfixed.cfg} $T/OTRTrace.cfg
cd $T
TRACE=$1 timeout 600 java -XX:+UseParallelGC -cp /opt/veriftools/tla/tla2tools.jar:/opt/veriftools/tla/CommunityModules-deps.jar tlc2.TLC -workers 1 -metadir $T/meta OTRTrace.tla 2>&1 | grep "MISMATCH\|PROP\|^Error\|TRACE-END\|nonexistent\|Attempted" | cut -c1-${TVW:-500} | head -${TVN:-20}
rm -rf $T
